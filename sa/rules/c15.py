"""C15 — the CodeTF report is well-formed, complete and internally consistent.

R-ONE-RESULT-PER-CODEMOD  compile_results appends exactly one Result per codemod of its parameter; run() passes the executed selection
R-RESULT-FIELDS           that Result receives codemod id, summary, description, references, detectionTool, changeset,
                          failedFiles, unfixedFindings from the same codemod object / id
R-RELATIVE-PATH           every ChangeSet(path=...) is str(<written path>.relative_to(<target directory>))
R-NONEMPTY-CHANGES        every pipeline ChangeSet is dominated by NONEMPTY(changes); writers build >= 1 change per dependency
R-DESCRIPTION-NONEMPTY    every registered transformer reporting a change without explicit description has a non-empty change_description
R-SAST-METADATA           remediation codemods have ToolMetadata(name, rules>=1); every codemod has summary and a description source
R-NO-CHANGESET-ON-FAILURE shared with C10
"""
from __future__ import annotations

import ast

from ..flow import FlowAnalysis, has_event, may_event
from ..model import AnalysisError, FuncInfo, call_name, last_attr, names_in, unparse, walk_no_nested
from ..prov import Prov
from ..sites import changeset_calls, kwarg, pipeline_applies, rw_sites, site_writes, writer_adds

COMPILE = "codemodder.context.CodemodExecutionContext.compile_results"
RESULT = "codemodder.codetf.Result"


def rule_one_result(ctx, rep):
    rep.rule(
        "R-ONE-RESULT-PER-CODEMOD",
        "compile_results loops once over its parameter and on every path of an iteration appends exactly one CodeTF Result to the "
        "list it returns",
        min_instances=2,
    )
    fn = ctx.prog.func(COMPILE)
    r = ctx.resolver(fn)
    loops = [n for n in walk_no_nested(fn.node) if isinstance(n, ast.For)]
    ok_loop = len(loops) == 1 and isinstance(loops[0].iter, ast.Name) and loops[0].iter.id in fn.params()
    rep.check("R-ONE-RESULT-PER-CODEMOD", fn.qname, fn.loc(), ok_loop, "loop", "compile_results does not loop exactly once over its codemods parameter")
    if not loops:
        return
    lp = loops[0]
    rets = [n.value for n in walk_no_nested(fn.node) if isinstance(n, ast.Return) and n.value is not None]
    out_name = rets[0].id if len(rets) == 1 and isinstance(rets[0], ast.Name) else None
    # results collected in a dict and returned as list(D.values()): one per codemod only if keyed by the (unique) codemod id
    from ..selection import Describer

    if len(rets) == 1 and out_name is None:
        sel = Describer(ctx, fn).describe(rets[0])
        if sel.kind == "dictvals":
            lv = lp.target.id if isinstance(lp.target, ast.Name) else None
            bad = [i for i in sel.insertions if not (isinstance(i.key, ast.Attribute) and i.key.attr == "id" and isinstance(i.key.value, ast.Name) and i.key.value.id == lv)]
            inside = all(any(x is i.node for x in ast.walk(lp)) for i in sel.insertions)
            ctor_ok = all(isinstance(r.expand(i.value), ast.Call) and r.callee_qname(r.expand(i.value)) == RESULT for i in sel.insertions)
            fa_d = FlowAnalysis(lp, lambda c: None, body=lp.body)
            rep.check("R-ONE-RESULT-PER-CODEMOD", fn.qname, fn.loc(lp), bool(sel.insertions) and not bad and inside and ctor_ok and len(sel.insertions) == 1, "one-append",
                      "results are collected in a dict that is not keyed by the codemod id (names are shared between origins: a later codemod overwrites an earlier one's "
                      "entry), or an iteration stores something other than exactly one Result")
            return

    def ev(call):
        if last_attr(call.func) == "append" and isinstance(call.func, ast.Attribute) and unparse(call.func.value) == out_name:
            v = r.expand(call.args[0]) if call.args else None
            if isinstance(v, ast.Call) and r.callee_qname(v) == RESULT:
                return "EV:append"
            return "EV:append-other"
        return None

    fa = FlowAnalysis(lp, ev, body=lp.body)
    ends = [e.state for e in fa.exits if e.kind == "end"] + [fa.state_at(s) for s in ast.walk(lp) if isinstance(s, ast.Continue) and fa.state_at(s) is not None]
    appends = [c for c in walk_no_nested(lp) if isinstance(c, ast.Call) and ev(c)]
    all_one = bool(ends) and all(has_event(s, "EV:append") for s in ends)
    double = [c for c in appends if fa.state_at(c) is not None and (may_event(fa.state_at(c), "EV:append") or may_event(fa.state_at(c), "EV:append-other"))]
    other = any(ev(c) == "EV:append-other" for c in appends)
    early = any(isinstance(s, (ast.Break, ast.Return)) for s in ast.walk(lp))
    rep.check("R-ONE-RESULT-PER-CODEMOD", fn.qname, fn.loc(lp), all_one and not double and not other and not early and out_name is not None, "one-append",
              "an iteration can end without appending its Result, append twice, append something else, or leave the loop early "
              "(the report would not have exactly one result per executed codemod, in order)")


def rule_result_fields(ctx, rep):
    rep.rule(
        "R-RESULT-FIELDS",
        "the Result constructed in compile_results takes codemod=<c>.id, summary=<c>.summary, description derived from <c>, "
        "references=<c>.references, detectionTool=<c>.detection_tool, and changeset / failedFiles / unfixedFindings looked up with <c>.id",
        min_instances=8,
    )
    fn = ctx.prog.func(COMPILE)
    r = ctx.resolver(fn)
    ctor = [n for n in walk_no_nested(fn.node) if isinstance(n, ast.Call) and r.callee_qname(n) == RESULT]
    if len(ctor) != 1:
        raise AnalysisError("compile_results does not construct exactly one codetf.Result")
    c = ctor[0]
    loops = [n for n in walk_no_nested(fn.node) if isinstance(n, ast.For)]
    var = loops[0].target.id if loops and isinstance(loops[0].target, ast.Name) else "codemod"
    from ..derive import deep_expand

    kw = {k.arg: deep_expand(ctx, fn, k.value) for k in c.keywords}
    want_attr = {"codemod": "id", "summary": "summary", "references": "references", "detectionTool": "detection_tool"}
    for field, attr in want_attr.items():
        v = kw.get(field)
        ok = isinstance(v, ast.Attribute) and v.attr == attr and isinstance(v.value, ast.Name) and v.value.id == var
        rep.check("R-RESULT-FIELDS", fn.qname, fn.loc(c), ok, field, f"Result.{field} is `{unparse(v) if v is not None else 'missing'}`, expected `{var}.{attr}`")
    getters = {"changeset": "get_changesets", "failedFiles": "get_failures", "unfixedFindings": "get_unfixed_findings"}
    for field, getter in getters.items():
        v = kw.get(field)
        ve = r.expand(v) if v is not None else None
        calls = [x for x in ast.walk(ve) if isinstance(x, ast.Call) and last_attr(x.func) == getter] if ve is not None else []
        ok = bool(calls) and all((x.args or x.keywords) and unparse((x.args or [x.keywords[0].value])[0]) == f"{var}.id" for x in calls)
        rep.check("R-RESULT-FIELDS", fn.qname, fn.loc(c), ok, field, f"Result.{field} is not built from self.{getter}({var}.id)")
    v = kw.get("description")
    ok = v is not None and var in names_in(v)
    rep.check("R-RESULT-FIELDS", fn.qname, fn.loc(c), ok, "description", "Result.description is not derived from the codemod being compiled")


def rule_relative_path(ctx, rep):
    rep.rule(
        "R-RELATIVE-PATH",
        "every ChangeSet(path=...) in the 7 write sites is str(P.relative_to(D)) where P is the path the site writes and D the "
        "target directory (context.directory / parent_directory)",
        min_instances=7,
    )
    for fn in rw_sites(ctx):
        pv = Prov(ctx, fn)
        writes = site_writes(ctx, fn)
        wpaths = {unparse(pv.root(w["path"])) for w in writes if w["path"] is not None}
        for c in changeset_calls(ctx, fn):
            r_ = ctx.resolver(fn)
            p = kwarg(c, "path")
            p = r_.expand(p) if p is not None else None
            ok = False
            why = "path is not of the form str(P.relative_to(D))"
            if isinstance(p, ast.Call) and call_name(p) == "str" and p.args and isinstance(r_.expand(p.args[0]), ast.Call) and last_attr(r_.expand(p.args[0]).func) == "relative_to":
                rel = r_.expand(p.args[0])
                base = unparse(pv.root(rel.func.value))
                d = rel.args[0] if rel.args else None
                d_ok = isinstance(d, ast.Attribute) and d.attr in ("directory", "parent_directory")
                ok = base in wpaths and d_ok
                why = f"ChangeSet.path is `{unparse(rel.func.value)}` relative to `{unparse(d) if d is not None else '?'}` but the site writes {sorted(wpaths)}"
            rep.check("R-RELATIVE-PATH", fn.qname, fn.loc(c), ok, "path", why)


def rule_nonempty_changes(ctx, rep):
    rep.rule(
        "R-NONEMPTY-CHANGES",
        "each pipeline ChangeSet(...) is dominated by a non-emptiness fact of the value passed as changes=; each writer passes "
        "build_changes(dependencies, ...) of a dependency list that write() only forwards when non-empty",
        min_instances=7,
    )
    for fn in pipeline_applies(ctx):
        fa = ctx.flow(fn)
        r = ctx.resolver(fn)
        for c in changeset_calls(ctx, fn):
            a = kwarg(c, "changes")
            must = fa.must_at(c)
            ok = a is not None and ((True, unparse(a)) in must or (True, unparse(r.expand(a))) in must)
            rep.check("R-NONEMPTY-CHANGES", fn.qname, fn.loc(c), ok, "changes",
                      f"ChangeSet built without a dominating non-emptiness test of `{unparse(a) if a is not None else 'changes'}`")
    for fn in writer_adds(ctx):
        r = ctx.resolver(fn)
        for c in changeset_calls(ctx, fn):
            a = kwarg(c, "changes")
            v = r.expand(a) if a is not None else None
            first = None
            if isinstance(v, ast.Call) and last_attr(v.func) == "build_changes":
                bc_ = ctx.prog.func("codemodder.dependency_management.base_dependency_writer.DependencyWriter.build_changes")
                from ..model import bind_args

                b = bind_args(v, bc_, True)
                ps_ = bc_.positional_params()
                first = b.get(ps_[1]) if len(ps_) > 1 else None
            ok = isinstance(first, ast.Name) and first.id in fn.params()
            rep.check("R-NONEMPTY-CHANGES", fn.qname, fn.loc(c), ok, "changes", "writer's ChangeSet.changes is not build_changes(<dependencies parameter>, ...)")
    w = ctx.prog.func("codemodder.dependency_management.base_dependency_writer.DependencyWriter.write")
    fa = ctx.flow(w)
    calls = [n for n in walk_no_nested(w.node) if isinstance(n, ast.Call) and last_attr(n.func) == "add_to_file"]
    ok = bool(calls) and all(n.args and (True, unparse(n.args[0])) in fa.must_at(n) for n in calls)
    rep.check("R-NONEMPTY-CHANGES", w.qname, w.loc(), ok, "write-forwards-nonempty", "DependencyWriter.write can call add_to_file with an empty dependency list")
    bc = ctx.prog.func("codemodder.dependency_management.base_dependency_writer.DependencyWriter.build_changes")
    from ..derive import one_per_element

    dep_param = bc.positional_params()[1] if len(bc.positional_params()) > 1 else "dependencies"
    rets = [r_.value for r_ in walk_no_nested(bc.node) if isinstance(r_, ast.Return) and r_.value is not None]
    ok = bool(rets) and all(one_per_element(ctx, bc, v, dep_param) for v in rets)
    rep.check("R-NONEMPTY-CHANGES", bc.qname, bc.loc(), ok, "one-change-per-dependency", "build_changes does not yield one Change per dependency")


def rule_description_nonempty(ctx, rep):
    rep.rule(
        "R-DESCRIPTION-NONEMPTY",
        "every registered libcst transformer class that can reach report_change*/add_change without an explicit description has a "
        "non-empty constant change_description in its MRO (pydantic rejects an empty description and the file fails)",
        min_instances=60,
    )
    reg = ctx.registry
    seen = set()
    for cm in reg.codemods:
        for tq in cm.transformers:
            if tq in seen or tq not in ctx.prog.classes:
                continue
            seen.add(tq)
            if "codemodder.codemods.libcst_transformer.LibcstResultTransformer" not in ctx.prog.mro(tq):
                continue
            needs = False
            for c in ctx.prog.mro_classes(tq):
                if c.qname.startswith("codemodder.codemods.libcst_transformer."):
                    continue
                for m in c.methods.values():
                    for n in walk_no_nested(m.node):
                        if isinstance(n, ast.Call) and last_attr(n.func) in ("report_change", "report_change_for_line") and isinstance(n.func, ast.Attribute):
                            has_desc = len(n.args) >= 2 or any(k.arg == "description" for k in n.keywords)
                            if not has_desc:
                                needs = True
                if "on_result_found" in c.methods:
                    needs = True
            got = ctx.prog.lookup_attr(tq, "change_description")
            val = reg.const_str(got[0].module, got[1]) if got else None
            ok = (not needs) or bool(val and val.strip()) or (got is not None and val is None and not (isinstance(got[1], ast.Constant) and got[1].value == ""))
            rep.check("R-DESCRIPTION-NONEMPTY", tq, ctx.prog.classes[tq].loc(), ok, "change_description",
                      "transformer reports changes with the default description but its change_description is empty: every Change it builds is rejected",
                      needs_default=needs, value=(val or "")[:40])


def rule_sast_metadata(ctx, rep):
    rep.rule(
        "R-SAST-METADATA",
        "every remediation codemod carries a detection tool name and >= 1 rule whose ids equal its requested rules; every codemod "
        "has a non-empty summary and either an inline description or its docs file core_codemods/docs/<origin>_python_<name>.md",
        min_instances=100,
    )
    reg = ctx.registry
    for cm in reg.codemods:
        problems = []
        if not (cm.summary is None or cm.summary.strip()):
            problems.append("empty summary")
        if cm.kind == "remediation":
            if not cm.tool_name:
                problems.append("no detection tool name")
            if not cm.rule_ids:
                problems.append("no tool rules")
            if cm.requested_rules is not None and cm.rule_ids is not None and sorted(cm.requested_rules) != sorted(cm.rule_ids):
                problems.append(f"requested_rules {cm.requested_rules} != tool rule ids {cm.rule_ids}")
        if not cm.has_inline_description:
            doc = f"src/core_codemods/docs/{cm.origin}_python_{cm.name}.md"
            if not (ctx.prog.repo / doc).exists():
                problems.append(f"no description: {doc} missing")
            elif not (ctx.prog.repo / doc).read_text().strip():
                problems.append(f"{doc} is empty")
        rep.check("R-SAST-METADATA", cm.id, cm.where, not problems, "metadata", "; ".join(problems), kind=cm.kind, tool=cm.tool_name)


def rule_report_complete(ctx, rep, rule_id="R-REPORT-COMPLETE"):
    """(a) the functions the changesets pass through on their way into the Result keep every changeset and every change;
    (b) run() cannot finish with status 0 and --output given without having written the report."""
    from .c10 import _maps_all

    rep.rule(
        rule_id,
        "what compile_results puts into Result.changeset went only through element-preserving functions (each returns its parameter or a "
        "filter-free map of it and contains no filtering comprehension over changesets / changes), and every `return 0` of run() is "
        "reached either with --output unset or after write_report",
        min_instances=2,
    )
    fn = ctx.prog.func(COMPILE)
    r = ctx.resolver(fn)
    ctor = [n for n in walk_no_nested(fn.node) if isinstance(n, ast.Call) and r.callee_qname(n) == RESULT]
    seen = set()
    for c, (field_kw, hint, getter) in [(c_, f_) for c_ in ctor for f_ in (("changeset", "changeset", "get_changesets"), ("unfixedFindings", "finding", "get_unfixed_findings"), ("failedFiles", "fail", "get_failures"))]:
        v = next((k.value for k in c.keywords if k.arg == field_kw), None)
        v = r.expand(v) if v is not None else None
        if isinstance(v, (ast.ListComp, ast.GeneratorExp, ast.SetComp)) and any(g.ifs for g in v.generators) or \
                (isinstance(v, ast.Call) and isinstance(v.func, ast.Name) and v.func.id in ("list", "tuple", "filter") and v.args
                 and (v.func.id == "filter" or isinstance(v.args[0], (ast.ListComp, ast.GeneratorExp)) and any(g.ifs for g in v.args[0].generators))):
            rep.check(rule_id, fn.qname, fn.loc(c), False, f"element-preserving:{field_kw}",
                      f"`{field_kw}={unparse(v)[:60]}` filters what the context recorded for the codemod: entries are dropped from the report")
            continue
        work = [v] if v is not None else []
        while work:
            e = work.pop()
            if not isinstance(e, ast.Call):
                continue
            for t in r.resolve_call(e):
                if not isinstance(t, FuncInfo) or t.qname in seen or t.cls is not None:
                    continue
                seen.add(t.qname)
                # which parameter receives the changesets
                from ..model import bind_args

                b = bind_args(e, t, False)
                cs_params = [p for p, a in b.items() if isinstance(a, ast.Call) and last_attr(a.func) == getter or isinstance(a, ast.Name) and hint in a.id.lower()]
                cs_params = cs_params or [p for p in t.params() if hint in p.lower()]
                rets = [n.value for n in walk_no_nested(t.node) if isinstance(n, ast.Return) and n.value is not None]
                ok = bool(rets) and bool(cs_params)
                why = ""
                for rv in rets:
                    if not any(_maps_all(Resolver_expand(ctx, t, rv), p_) for p_ in cs_params):
                        ok = False
                        why = f"returns `{unparse(rv)[:60]}`, which is not its changesets parameter nor a filter-free map of it"
                for n in ast.walk(t.node):  # nested helper functions included
                    if isinstance(n, (ast.ListComp, ast.GeneratorExp, ast.SetComp)) and any(g.ifs for g in n.generators):
                        txt = " ".join(unparse(g.iter) for g in n.generators)
                        if "change" in txt.lower() or hint in txt.lower():
                            ok = False
                            why = f"`{unparse(n)[:70]}` filters while rebuilding the changesets (entries of the report are dropped)"
                rep.check(rule_id, t.qname, t.loc(), ok, f"element-preserving:{field_kw}", why or f"{field_kw} parameter not identified")
            work += list(e.args)
    run = ctx.prog.func("codemodder.codemodder.run")
    rr = ctx.resolver(run)

    def ev(call):
        return "EV:report" if last_attr(call.func) == "write_report" else None

    # the option value handed to write_report (`<args>.output`), and the statements that follow the binding of <args>:
    # analysed under the assumption "--output was given", every successful exit must have written the report
    wr = [c for c in walk_no_nested(run.node) if isinstance(c, ast.Call) and last_attr(c.func) == "write_report" and c.args]
    opt = rr.expand(wr[0].args[0]) if wr else None
    if not (isinstance(opt, ast.Attribute) and isinstance(opt.value, ast.Name)):
        raise AnalysisError("run(): the report path handed to write_report is not an option attribute (shape not understood)")
    holder = opt.value.id
    idx = next((i for i, st in enumerate(run.node.body) if isinstance(st, (ast.Assign, ast.AnnAssign)) and any(isinstance(t, ast.Name) and t.id == holder for t in (st.targets if isinstance(st, ast.Assign) else [st.target]))), None)
    if idx is None:
        raise AnalysisError(f"run(): `{holder}` is not bound by a top-level statement")
    fa = FlowAnalysis(run.node, ev, entry={(True, unparse(opt))}, body=run.node.body[idx + 1:])
    n0 = 0
    for ex in fa.exits:
        if ex.kind != "return" or not (isinstance(ex.value, ast.Constant) and ex.value.value == 0):
            continue
        n0 += 1
        rep.check(rule_id, run.qname, run.loc(ex.node), has_event(ex.state, "EV:report"), f"return 0#{n0}",
                  "run() can finish with status 0 although --output was given and no report has been written on that path")
    if n0 == 0:
        raise AnalysisError("run() has no `return 0`")


def rule_model_faithful(ctx, rep, rule_id="R-MODEL-FAITHFUL"):
    """Shared by C03 / C15."""
    rep.rule(
        rule_id,
        "(a) the pydantic validators of the report models (codemodder.codetf) only check, or fill in a value that is missing (`x = x or "
        "default`): none returns or stores a rewritten value -- the report would then name a path / line / diff other than what the pipelines "
        "produced and wrote; (b) outside its construction nothing assigns to or mutates a ChangeSet's `changes`, `diff` or `path` (a list of "
        "changes filtered after the pipeline's own non-empty checks can end up empty)",
        min_instances=3,
    )
    mod = ctx.prog.module("codemodder.codetf")
    n = 0
    for c in mod.classes.values():
        for m in c.methods.values():
            decos = [d.split("(")[0].split(".")[-1] for d in m.decorators()]
            if not any(d in ("model_validator", "field_validator", "validator", "root_validator", "field_serializer", "model_serializer") for d in decos):
                continue
            n += 1
            pp = m.positional_params()
            val = pp[0] if any(d == "model_validator" for d in decos) and pp else (pp[1] if len(pp) > 1 else None)
            bad = None
            if any(d in ("field_serializer", "model_serializer") for d in decos):
                bad = m.node  # a serializer changes what is written into the report by definition
            for x in walk_no_nested(m.node):
                if isinstance(x, ast.Return) and not (isinstance(x.value, ast.Name) and x.value.id == val):
                    bad = bad or x
                if isinstance(x, (ast.Assign, ast.AugAssign)):
                    tgts = x.targets if isinstance(x, ast.Assign) else [x.target]
                    for t in tgts:
                        if isinstance(t, ast.Attribute) and isinstance(t.value, ast.Name) and t.value.id == val:
                            # filling a missing value: `self.f = self.f or <default>`
                            v = x.value if isinstance(x, ast.Assign) else None
                            fills = isinstance(v, ast.BoolOp) and isinstance(v.op, ast.Or) and unparse(v.values[0]) == unparse(t)
                            if not fills:
                                bad = bad or x
                        elif isinstance(t, ast.Name) and t.id == val:
                            bad = bad or x
            rep.check(rule_id, m.qname, m.loc(bad if isinstance(bad, ast.AST) else None), bad is None, "validator-checks-only",
                      f"`{unparse(bad)[:70] if bad is not None and not isinstance(bad, ast.FunctionDef) else m.name}`: the report model rewrites the value it is given" if bad is not None else "")
    if n < 3:
        raise AnalysisError(f"only {n} validators found on the CodeTF models")
    # (b) who may write a ChangeSet's fields
    writers = []
    for fn in ctx.prog.live_functions():
        if not fn.module.name.startswith(("codemodder.", "core_codemods.")):
            continue
        r = None
        for x in walk_no_nested(fn.node):
            tgt = None
            if isinstance(x, (ast.Assign, ast.AugAssign)):
                for t in (x.targets if isinstance(x, ast.Assign) else [x.target]):
                    while isinstance(t, ast.Subscript):
                        t = t.value
                    if isinstance(t, ast.Attribute) and t.attr in ("changes", "diff"):
                        tgt = t
            elif isinstance(x, ast.Delete):
                for t in x.targets:
                    while isinstance(t, ast.Subscript):
                        t = t.value
                    if isinstance(t, ast.Attribute) and t.attr in ("changes", "diff"):
                        tgt = t
            elif isinstance(x, ast.Call) and isinstance(x.func, ast.Attribute) and x.func.attr in ("append", "extend", "remove", "pop", "clear", "insert", "sort", "reverse") \
                    and isinstance(x.func.value, ast.Attribute) and x.func.value.attr == "changes":
                tgt = x.func.value
            if tgt is None:
                continue
            recv = tgt.value
            if isinstance(recv, ast.Name) and recv.id in ("self", "cls"):
                continue  # a transformer's own list of changes (XMLTransformer.changes, visitors), not a ChangeSet
            r = r or ctx.resolver(fn)
            t = r.type_of(recv) or ""
            if t and not t.endswith("ChangeSet"):
                continue
            writers.append((fn, x))
    rep.check(rule_id, "codemodder.codetf.ChangeSet", writers[0][0].loc(writers[0][1]) if writers else "src/codemodder/codetf.py:1", not writers, "changeset-not-edited-after-construction",
              f"`{unparse(writers[0][1])[:70]}` in {writers[0][0].qname} edits a changeset after it was built: its changes / diff no longer describe what the pipeline did" if writers else "")


def Resolver_expand(ctx, fn, e):
    return ctx.resolver(fn).expand(e)


def check(ctx, rep):
    rep.explanation = (
        "compile_results is decided path-by-path (exactly one Result per codemod); the 7 ChangeSet constructions are tied to the "
        "written path and to non-emptiness facts; the registry table (103 codemods, interpreted statically) supplies metadata, "
        "docs files and transformer classes for the per-codemod obligations."
    )
    rule_one_result(ctx, rep)
    rule_result_fields(ctx, rep)
    rule_relative_path(ctx, rep)
    rule_nonempty_changes(ctx, rep)
    rule_description_nonempty(ctx, rep)
    rule_sast_metadata(ctx, rep)
    rule_report_complete(ctx, rep)
    rule_model_faithful(ctx, rep)
    from .c03 import rule_line_unit

    rule_line_unit(ctx, rep)
    from .c10 import rule_no_changeset_on_failure

    rule_no_changeset_on_failure(ctx, rep)
    from .c10 import rule_accumulate_all

    rule_accumulate_all(ctx, rep)
    from .c17 import rule_exec_order

    # 'one result per executed codemod, in execution order': the report is compiled from the requested sequence, so the apply loop must follow it
    rule_exec_order(ctx, rep)
    from .c09 import rule_finding_owns_rule

    # a finding's own identity (rule id, name, url) reaches the report unaltered by other findings / codemods
    rule_finding_owns_rule(ctx, rep)
    from .c17 import rule_select_unique

    # one result per executed codemod: a codemod selected twice is executed and reported twice
    rule_select_unique(ctx, rep)
    from .c19 import rule_one_append

    # `every changeset has a non-empty diff`: the regex pipelines record a change exactly for the lines they edited
    rule_one_append(ctx, rep)
    rep.not_covered += ["JSON-schema validity of pydantic's serialisation", "line numbers lying inside the file", "non-ASCII content"]
