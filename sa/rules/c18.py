"""C18 — a codemod acts on what its own detector reports, and the result is clean.

R-FIXED-IMAGE   (shared with C07) detecting again reports nothing in the rewritten code
R-HOOK-KIND     every syntactic kind a rule can report has a hook that reaches on_result_found (or a result-gated custom hook)
R-LOST-UPDATE   a hook must not rebuild its result from the *original* node's children (or return the original node) when a fix of the
                same transformer can sit strictly inside: the inner, also reported, location is silently reverted
"""
from __future__ import annotations

import ast
import re

from ..hooks import is_framework
from ..model import AnalysisError, FuncInfo, call_name, last_attr, names_in, unparse, walk_no_nested
from ..semgrep_rules import alternatives, parse_call
from .c07 import fixed_image, result_hook, rule_detected

CHILD_SEQ_ATTRS = {"elements", "args", "body", "values", "parts", "expressions", "comparisons", "items", "targets"}
KIND_HOOK = {"call": "leave_Call", "assign": "leave_Assign", "class": "leave_ClassDef", "with": "leave_With", "module": "leave_Module"}
EXPR_KINDS = {"Call", "BooleanOperation", "Comparison", "UnaryOperation", "BinaryOperation", "Subscript", "Attribute", "IfExp", "Lambda",
              "FormattedString", "ConcatenatedString", "List", "Tuple", "Set", "Dict", "ListComp", "NamedExpr", "Await", "Arg", "Element"}
COMPOUND = {"ClassDef", "FunctionDef", "If", "With", "For", "While", "Try", "IndentedBlock", "Module", "Else"}
SIMPLE_WITH_EXPR = {"Assign", "AnnAssign", "AugAssign", "Expr", "Return", "Assert", "Raise", "Decorator", "WithItem"}
# one physical line of small statements (`a = 1; b = 2`, or the body of `if x: a = 1`): holds small statements and expressions, never another line / block
SMALL_STATEMENT_HOLDERS = {"SimpleStatementLine", "SimpleStatementSuite"}
SMALL_STATEMENTS = {"Assign", "AnnAssign", "AugAssign", "Expr", "Return", "Assert", "Raise", "Import", "ImportFrom", "Global", "Nonlocal", "Pass", "Del", "Break", "Continue"}
LEAVES = {"Import", "ImportFrom", "ImportAlias", "Break", "Continue", "Pass", "Name", "SimpleString", "Integer", "Float", "Global"}


def can_contain(outer: str, inner: str) -> bool:
    if outer in LEAVES:
        return False
    if outer in COMPOUND:
        return True
    if outer in SMALL_STATEMENT_HOLDERS:
        return inner in EXPR_KINDS or inner in SMALL_STATEMENTS or inner in ("Name", "SimpleString")
    if outer in SIMPLE_WITH_EXPR:
        return inner in EXPR_KINDS or inner in ("Name", "SimpleString")
    if outer in EXPR_KINDS:
        return inner in EXPR_KINDS
    return True


def alt_kinds(alt) -> set[str]:
    kinds = set()
    for p in alt.positives:
        ps = p.strip()
        if ps.startswith("class "):
            kinds.add("class")
        elif ps.startswith("with "):
            kinds.add("with")
        elif parse_call(ps) is not None:
            kinds.add("call")
        elif re.match(r"^[\w$.\[\]]+\s*=[^=]", ps):
            kinds.add("assign")
    if alt.regexes and not alt.positives:
        kinds.add("module")
    return kinds


def _self_reachable(ctx, cls_q: str, start: str, _cache: dict = {}) -> set[str]:
    """Names of the methods reachable from cls.start through `self.m(...)` calls (resolved in the class's MRO)."""
    key = (id(ctx), cls_q, start)
    if key in _cache:
        return _cache[key]
    seen: set[str] = set()
    work = [start]
    while work:
        name = work.pop()
        if name in seen:
            continue
        seen.add(name)
        m = ctx.prog.lookup_method(cls_q, name)
        if m is None:
            continue
        for n in walk_no_nested(m.node):
            if isinstance(n, ast.Call) and isinstance(n.func, ast.Attribute) and isinstance(n.func.value, ast.Name) and n.func.value.id == "self":
                work.append(n.func.attr)
    _cache[key] = seen
    return seen


def rule_hook_kind(ctx, rep):
    rep.rule(
        "R-HOOK-KIND",
        "for every rule-detected codemod and every syntactic kind its rule alternatives can report (call / assignment / class / "
        "with-item / whole file): the transformer's effective hook for that kind is the framework dispatcher reaching on_result_found, "
        "or a custom hook that contains a result-gated change effect or delegates to the dispatcher",
        min_instances=22,
    )
    for cm in rule_detected(ctx):
        if not cm.rule_text:
            rep.instance("R-HOOK-KIND", cm.id, cm.where, True, detail="rule text not constant (lazy-logging): kinds taken as call")
            kinds = {"call"}
        else:
            kinds = set()
            for alt in alternatives(cm.rule_text):
                kinds |= alt_kinds(alt)
        tq = next((t for t in cm.transformers if t in ctx.prog.classes), None)
        if tq is None:
            rep.check("R-HOOK-KIND", cm.id, cm.where, False, "transformer", "transformer class not found")
            continue
        tm = ctx.tmodel(tq)
        effs = tm.effects()
        has_orf = "on_result_found" in tm.methods
        for k in sorted(kinds) or ["call"]:
            hook = KIND_HOOK[k]
            m = tm.methods.get(hook)
            ok = False
            why = f"no {hook} in the transformer's MRO"
            if k == "module":
                # file-selector rules: any gated or module-level custom logic
                ok = any(e.method.name in ("leave_Module", "leave_Assign", "transform_module_impl") for e in effs)
                why = "file-selector rule but no module-level hook acts"
            elif k == "with":
                mm = tm.methods.get("leave_With") or tm.methods.get("leave_WithItem")
                ok = mm is not None and any(e.method.qname == mm.qname or e.roles for e in effs)
                why = "rule reports a with-item but no leave_With/leave_WithItem hook acts"
            elif m is not None and is_framework(m.qname):
                # either the framework dispatcher reaches on_result_found, or the transformer drives a helper visitor
                # (transform_module_impl override) whose own hook for this kind contains a result-gated change
                drives = "transform_module_impl" in tm.own and any(
                    e.cls != tq and (e.roles & {"RESULT", "SELECTED"}) and e.method.name in _self_reachable(ctx, e.cls, hook) for e in effs
                )
                ok = has_orf or drives
                why = f"framework {hook} dispatches to on_result_found, which the transformer does not define, and no driven helper acts on results"
            elif m is not None:
                txt = unparse(m.node)
                delegates = "_new_or_updated_node" in txt or f"super().{hook}" in txt or "on_result_found" in txt
                called = {n.func.attr for n in walk_no_nested(m.node) if isinstance(n, ast.Call) and isinstance(n.func, ast.Attribute) and isinstance(n.func.value, ast.Name) and n.func.value.id == "self"}
                gated_effect = any(
                    (e.method.qname == m.qname or e.method.name in called) and (e.roles & {"RESULT", "SELECTED"}) for e in effs
                )
                ok = delegates or gated_effect
                why = f"custom {hook} neither delegates to the result dispatcher nor contains a result-gated change"
            rep.check("R-HOOK-KIND", cm.id, (m or tm.methods.get("on_result_found") or next(iter(tm.own.values()))).loc() if (m or tm.own) else cm.where, ok,
                      f"{k}->{hook}", f"the rule reports {k} locations but {why}: findings of that kind are silently ignored")


def _node_params(m: FuncInfo) -> tuple[str | None, str | None]:
    ps = m.positional_params()
    if len(ps) >= 3:
        return ps[1], ps[2]
    return None, None


REBUILD_HELPERS = {"update_call_target", "update_arg_target", "add_arg_to_call", "update_assign_rhs"}


def lost_update_sites(ctx, tm):
    """(method, node, how) where a hook's result is built from the original node although a fix may sit inside."""
    out = []
    effs = tm.effects()
    # node kinds this transformer family modifies
    mod_kinds = set()
    for e in effs:
        if e.kind != "return-change":
            continue
        if e.method.name.startswith("leave_"):
            mod_kinds.add(e.method.name[len("leave_"):])
        elif e.method.name == "on_result_found" or e.roles & {"IN_RESULT_FOUND"}:
            mod_kinds |= {"Call", "Assign", "ClassDef"}
    for owner, m in tm.all_methods():
        orig, upd = _node_params(m)
        if orig is None or not (m.name.startswith("leave_") or m.name == "on_result_found"):
            continue
        kinds_here = {m.name[len("leave_"):]} if m.name.startswith("leave_") else {"Call", "Assign", "ClassDef"}
        nested_possible = any(can_contain(k, y) for k in kinds_here for y in mod_kinds)
        if not nested_possible:
            continue
        fa = ctx.flow(m)
        has_change = any(e.method.qname == m.qname for e in effs)
        for n in walk_no_nested(m.node):
            if isinstance(n, ast.Return) and isinstance(n.value, ast.Name) and n.value.id == orig and fa.reachable(n):
                # returning the original node un-does nested rewrites; only meaningful if the transformer changes something nested
                out.append((m, n, "return-original", f"`return {orig}` discards rewrites already made inside the node"))
            if isinstance(n, ast.Call) and fa.reachable(n):
                la = last_attr(n.func)
                if la == "replace_args" and n.args and isinstance(n.args[0], ast.Name) and n.args[0].id == orig:
                    out.append((m, n, "replace_args(original)", f"`{unparse(n)[:50]}` rebuilds the argument list from the original (un-rewritten) arguments"))
                elif la in REBUILD_HELPERS and n.args and isinstance(n.args[0], ast.Name) and n.args[0].id == orig and isinstance(n.func, ast.Attribute) \
                        and isinstance(n.func.value, ast.Name) and n.func.value.id == "self":
                    # the framework's rebuild helpers return `<first argument>.with_changes(...)`: given the original node they hand
                    # back a copy of the original with the edit, without whatever was fixed inside it
                    out.append((m, n, f"{la}(original)", f"`{unparse(n)[:50]}` rebuilds the node from the original (un-rewritten) one"))
                elif la == "with_changes" and isinstance(n.func, ast.Attribute) and isinstance(n.func.value, ast.Name) and n.func.value.id == orig:
                    out.append((m, n, "original.with_changes", f"`{unparse(n)[:50]}` rebuilds the node from the original"))
            if isinstance(n, ast.Starred) and isinstance(n.value, ast.Attribute) and isinstance(n.value.value, ast.Name) and n.value.value.id == orig and n.value.attr in ("args", "body", "elements"):
                if fa.reachable(n) if hasattr(n, "lineno") else True:
                    out.append((m, n, f"*original.{n.value.attr}", f"`*{orig}.{n.value.attr}` copies the original children into the result"))
        # children captured from the original node by a `match` and put into a freshly constructed result
        captured: dict[str, ast.AST] = {}
        for mt in walk_no_nested(m.node):
            if isinstance(mt, ast.Match):
                root = mt.subject
                while isinstance(root, (ast.Attribute, ast.Subscript)):
                    root = root.value
                if not (isinstance(root, ast.Name) and root.id == orig):
                    continue
                for cs in mt.cases:
                    for pat in ast.walk(cs.pattern):
                        if isinstance(pat, ast.MatchClass):
                            for kw, sub in zip(pat.kwd_attrs, pat.kwd_patterns):
                                if kw in CHILD_SEQ_ATTRS and isinstance(sub, ast.MatchAs) and sub.name and sub.pattern is None:
                                    captured[sub.name] = mt
        if captured:
            for n in walk_no_nested(m.node):
                if isinstance(n, ast.Return) and isinstance(n.value, ast.Call) and fa.reachable(n) and (unparse(n.value.func).startswith("cst.") or (last_attr(n.value.func) or "") == "with_changes"):
                    used = [k.value.id for k in n.value.keywords if isinstance(k.value, ast.Name) and k.value.id in captured]
                    used += [x.value.id for k in n.value.keywords for x in ast.walk(k.value) if isinstance(x, ast.Starred) and isinstance(x.value, ast.Name) and x.value.id in captured]
                    if used:
                        out.append((m, n, f"captured:{used[0]}", f"`{unparse(n)[:60]}` is built from `{used[0]}`, children captured from the original node by `match {unparse(captured[used[0]].subject)}`"))
    return out, mod_kinds


# confirmed exceptions of R-LOST-UPDATE: (class, how) -> why nothing the transformer rewrites can sit inside the node at that site
LOST_UPDATE_EXEMPT = {
    ("core_codemods.semgrep.semgrep_rsa_key_size.RsaKeySizeTransformer", "return-original"):
        "the original node is returned only for a reported call with fewer than two arguments; the rule reports a call for a *literal* key size, so "
        "that single argument is the literal and no other reported call can be nested in it",
}
ANCESTOR_DECLINES = {"FunctionDef": "find_immediate_function_def", "ClassDef": "find_immediate_class_def"}


def _declines_when_nested(ctx, m: FuncInfo, orig: str) -> bool:
    """The hook gives up on any node that has an ancestor of its own kind (`if self.find_immediate_function_def(original_node): return ...`):
    then nothing it rewrites ever sits strictly inside a node of that kind."""
    kind = m.name[len("leave_"):] if m.name.startswith("leave_") else None
    helper = ANCESTOR_DECLINES.get(kind or "")
    if not helper:
        return False
    for st in walk_no_nested(m.node):
        if isinstance(st, ast.If) and len(st.body) == 1 and isinstance(st.body[0], ast.Return) and isinstance(st.body[0].value, ast.Name):
            t = st.test
            if isinstance(t, ast.Call) and last_attr(t.func) == helper and t.args and isinstance(t.args[0], ast.Name) and t.args[0].id == orig:
                return True
    return False


def rule_lost_update(ctx, rep, rule_id="R-LOST-UPDATE", all_codemods=False):
    rep.rule(
        rule_id,
        "in every transformer of a " + ("registered libcst" if all_codemods else "rule-detected") + " codemod: a leave_<X>/on_result_found hook does not return its original node, nor rebuild "
        "its result from original_node's children (replace_args(original_node, ..), original_node.with_changes, *original_node.args, children "
        "captured by `match original_node...`), when a node kind the same transformer rewrites can occur strictly inside X — otherwise the inner "
        "fix is reverted (and done by the next run: no fixed point) while its change may still be reported",
        min_instances=15,
    )
    seen = set()
    if all_codemods:
        cms = [c for c in ctx.registry.codemods if c.pipeline == "libcst"]
    else:
        cms = rule_detected(ctx) + [c for c in ctx.registry.codemods if c.id in ("pixee:python/use-generator", "pixee:python/use-walrus-if")]
    for cm in cms:
        for tq in cm.transformers:
            if tq in seen or tq not in ctx.prog.classes:
                continue
            seen.add(tq)
            tm = ctx.tmodel(tq)
            sites, mod_kinds = lost_update_sites(ctx, tm)
            kept = []
            for m, n, how, msg in sites:
                ex = LOST_UPDATE_EXEMPT.get((tq, how.split(":")[0]))
                orig_p, _u = _node_params(m)
                if ex is None and mod_kinds == {m.name[len("leave_"):]} and _declines_when_nested(ctx, m, orig_p):
                    ex = f"the only hook that rewrites gives up on a {m.name[len('leave_'):]} nested in another one ({ANCESTOR_DECLINES[m.name[len('leave_'):]]}): nothing it rewrites sits inside this node"
                if ex:
                    rep.instance(rule_id, tq, m.loc(n), True, detail=f"{m.name}:{how}", exempt=ex)
                else:
                    kept.append((m, n, how, msg))
            sites = kept
            if not sites:
                rep.instance(rule_id, tq, ctx.prog.classes[tq].loc(), True, detail="no result built from the original node", modifies=sorted(mod_kinds))
            by = {}
            for m, n, how, msg in sites:
                by.setdefault((m.qname, how), (m, n, msg))
            for (mq, how), (m, n, msg) in by.items():
                rep.check(rule_id, tq, m.loc(n), False, f"{m.name}:{how}",
                          f"{msg}; this transformer also rewrites {sorted(mod_kinds)} which can be nested inside: the inner fix is lost while its change is still reported "
                          f"({cm.id})")


def rule_framework_dispatch_keeps_updates(ctx, rep, rule_id="R-LOST-UPDATE"):
    """Shared with C13: the framework's own dispatch (every leave_<X> of every codemod goes through it, for every node kind) must hand
    back the *updated* node when it declines -- the original node has none of the fixes already made in its children."""
    n = 0
    for modname in ("codemodder.codemods.libcst_transformer", "codemodder.codemods.base_visitor", "codemodder.codemods.base_transformer"):
        mod = ctx.prog.modules.get(modname)
        if mod is None:
            continue
        for fn in [f for f in ctx.prog.live_functions() if f.module is mod and f.cls is not None]:
            pp = fn.positional_params()
            # (self, original, updated): libcst's leave_<X> signature, and helpers the dispatchers forward both nodes to
            if len(pp) < 3:
                continue
            is_leave = fn.name.startswith("leave_")
            forwarded = False
            for caller, call in ctx.cg.sites.get(fn.qname, []):
                cp = caller.positional_params()
                if caller.name.startswith("leave_") and len(cp) >= 3 and len(call.args) >= 2 and [unparse(a) for a in call.args[:2]] == cp[1:3]:
                    forwarded = True
            if not (is_leave or forwarded):
                continue
            orig = pp[1]
            for ret in [x for x in walk_no_nested(fn.node) if isinstance(x, ast.Return) and x.value is not None]:
                n += 1
                v = ctx.resolver(fn).expand(ret.value)
                bad = isinstance(v, ast.Name) and v.id == orig
                rep.check(rule_id, fn.qname, fn.loc(ret), not bad, f"framework:{fn.name}:return {unparse(ret.value)[:20]}",
                          f"the framework dispatcher `{fn.name}` returns its original node `{orig}`: for every codemod and every node kind, fixes already "
                          "made inside this node (a nested reported location) are reverted while their change entries stay in the report")
    if n < 3:
        raise AnalysisError(f"only {n} returns found in the framework dispatch methods (anchor vanished)")


def rule_scan_targets(ctx, rep, rule_id="R-SCAN-TARGETS"):
    """Shared with C05: the detector scans the files that were selected, not 'the directory' (semgrep applies its own ignore rules to a
    directory scan and none to explicit targets)."""
    from ..logic import consistent_assignments_state

    rep.rule(
        rule_id,
        "codemodder.semgrep.run hands semgrep the selected files themselves; the project directory is used as the target only when no file "
        "list was given (the fallback is reached only under the fact that the file list is empty) -- any other condition (size limits, ...) "
        "makes semgrep's own ignore list decide which selected files are scanned, and a reported location in a skipped file is never fixed",
        min_instances=1,
    )
    fn = ctx.prog.func("codemodder.semgrep.run")
    r = ctx.resolver(fn)
    pp = fn.params()
    files_p = next((p for p in pp if "file" in p.lower() and "yaml" not in p.lower()), None)
    if files_p is None:
        raise AnalysisError("codemodder.semgrep.run: the parameter carrying the files to scan was not found")
    fa = ctx.flow(fn)
    pm = ctx.parents(fn)
    dirs = [n for n in walk_no_nested(fn.node) if isinstance(n, ast.Attribute) and n.attr == "directory" and isinstance(n.ctx, ast.Load)]
    if not dirs:
        rep.instance(rule_id, fn.qname, fn.loc(), True, detail="no directory fallback at all")
        return

    def atom(e):
        # EMPTY: the file list (or a one-to-one image of it) is falsy
        x = e
        if isinstance(x, ast.Name):
            if x.id == files_p:
                return "!EMPTY"
            y = r.expand(x)
            if y is not x:
                from .c10 import _maps_all

                inner = y
                if isinstance(inner, ast.BoolOp) and isinstance(inner.op, ast.Or):
                    inner = inner.values[0]
                if _maps_all(inner, files_p) or (isinstance(inner, (ast.ListComp, ast.GeneratorExp)) and len(inner.generators) == 1 and not inner.generators[0].ifs
                                                  and _maps_all(inner.generators[0].iter.values[0] if isinstance(inner.generators[0].iter, ast.BoolOp) else inner.generators[0].iter, files_p)):
                    return "!EMPTY"
        return None

    for d in dirs:
        par = pm.get(id(d))
        # `files or [directory]`: the fallback operand of an `or` whose first operand is the file list
        cur, child, ok = par, d, None
        while cur is not None and not isinstance(cur, ast.stmt):
            if isinstance(cur, ast.BoolOp) and isinstance(cur.op, ast.Or) and cur.values and cur.values[0] is not child and any(x is child for v in cur.values[1:] for x in ast.walk(v)):
                ok = atom(cur.values[0]) == "!EMPTY"
                break
            child, cur = cur, pm.get(id(cur))
        if ok is None:
            st = d
            while st is not None and not isinstance(st, ast.stmt):
                st = pm.get(id(st))
            envs = consistent_assignments_state(fa.state_at(st), atom, ["EMPTY"]) if st is not None else []
            ok = envs == [{"EMPTY": True}]
        rep.check(rule_id, fn.qname, fn.loc(d), bool(ok), "directory-fallback",
                  f"the project directory becomes a semgrep target on a path where the list of selected files (`{files_p}`) is not known to be empty")


def rule_alias_decides(ctx, rep):
    rep.rule(
        "R-ALIAS-DECIDES",
        "in the name-resolution mixin a helper that is handed one alias of an import statement (`import_alias` / `alias` next to the import "
        "node) lets that alias decide its answer on every path: an `import a, b` statement binds several names, so a result computed from the "
        "statement alone (its first name) resolves `b.f()` to `a.f` -- the detector still reports the call, the transformer no longer "
        "recognises it, and the reported location is neither rewritten nor failed",
        min_instances=2,
    )
    mod = ctx.prog.module("codemodder.codemods.utils_mixin")
    n = 0
    for fn in [f for f in ctx.prog.live_functions() if f.module is mod]:
        ps = [p_ for p_ in fn.positional_params() if "alias" in p_.lower()]
        if not ps:
            continue
        tainted = set(ps)
        changed = True
        while changed:
            changed = False
            for a in walk_no_nested(fn.node):
                if isinstance(a, ast.Assign) and names_in(a.value) & tainted:
                    for t in a.targets:
                        for x in ast.walk(t):
                            if isinstance(x, ast.Name) and x.id not in tainted:
                                tainted.add(x.id)
                                changed = True
        for rt in [x for x in walk_no_nested(fn.node) if isinstance(x, ast.Return) and x.value is not None and not isinstance(x.value, ast.Constant)]:
            n += 1
            # a value, or a branch condition on the way to it, must involve the alias
            dep = bool(names_in(rt.value) & tainted)
            if not dep:
                must = ctx.flow(fn).must_at(rt)
                dep = any(not txt.startswith(("EV:", "ITER:", "MATCH:")) and any(re.search(rf"(?<![A-Za-z0-9_]){re.escape(v)}(?![A-Za-z0-9_])", txt) for v in tainted) for _p, txt in must)
            rep.check("R-ALIAS-DECIDES", fn.qname, fn.loc(rt), dep, f"return:{unparse(rt.value)[:30]}",
                      f"`{unparse(rt)[:70]}` does not depend on `{ps[0]}`: every name bound by the same import statement gets the same answer")
    if n < 2:
        raise AnalysisError("utils_mixin: no resolution helper taking an import alias found")


def rule_no_swallow(ctx, rep):
    rep.rule(
        "R-NO-SWALLOW",
        "on the dispatch path from a reported location to its rewrite (libcst_transformer.py, base_visitor.py) a broad exception handler "
        "either re-raises or lists the file as failed (add_failure, which also gives up on the file: nothing is written); a handler that "
        "only logs or only marks one finding as unfixed lets the visitor carry on, so a file that could not be transformed is partly "
        "rewritten, written back, and never listed as failed",
        min_instances=2,
    )
    n = 0
    for modname in ("codemodder.codemods.libcst_transformer", "codemodder.codemods.base_visitor", "codemodder.codemods.api"):
        mod = ctx.prog.module(modname)
        for fn in [f for f in ctx.prog.live_functions() if f.module is mod]:
            for tr in [t for t in walk_no_nested(fn.node) if isinstance(t, ast.Try)]:
                for h in tr.handlers:
                    types = {"<bare>"} if h.type is None else {last_attr(e) or unparse(e) for e in (h.type.elts if isinstance(h.type, ast.Tuple) else [h.type])}
                    if not (types & {"Exception", "BaseException", "<bare>"}):
                        continue
                    n += 1
                    reraises = any(isinstance(x, ast.Raise) for st in h.body for x in ast.walk(st))
                    records = any(isinstance(x, ast.Call) and last_attr(x.func) == "add_failure" for st in h.body for x in ast.walk(st))
                    rep.check("R-NO-SWALLOW", fn.qname, fn.loc(h), reraises or records, "broad-handler",
                              f"`except {', '.join(sorted(types))}` in {fn.name} neither re-raises nor records a failure: an error while rewriting a reported "
                              "location is silently dropped (location not rewritten, file not listed as failed)")
    if n < 2:
        raise AnalysisError("broad handlers of the libcst pipeline not found (anchor vanished)")
    # the same holds inside the codemods themselves: a broad handler around code that can report a change (a hook body, a helper that
    # rewrites) must not swallow -- narrow `try: get_metadata(...) except Exception` probes do not reach such code and are left alone
    from ..sites import worker_fn

    seen_mods = ("codemodder.codemods.libcst_transformer", "codemodder.codemods.base_visitor", "codemodder.codemods.api")
    reporters = {q for q, f in ctx.prog.functions.items() if f.name in ("report_change", "report_change_for_line", "add_change", "add_change_from_position", "on_result_found")}
    for q in sorted(ctx.cg.reachable([worker_fn(ctx).qname])):
        fn = ctx.prog.functions[q]
        if fn.module.name in seen_mods or fn.cls is None or fn.module.name.startswith("codemodder.codemods.") and fn.module.name.endswith(("_transformer",)):
            continue
        r = None
        for tr in [t for t in walk_no_nested(fn.node) if isinstance(t, ast.Try)]:
            broad = [h for h in tr.handlers if h.type is None or ({last_attr(e) or unparse(e) for e in (h.type.elts if isinstance(h.type, ast.Tuple) else [h.type])} & {"Exception", "BaseException"})]
            if not broad:
                continue
            r = r or ctx.resolver(fn)
            reaches = False
            for c in [x for st in tr.body for x in ast.walk(st) if isinstance(x, ast.Call)]:
                for t in r.resolve_call(c):
                    if isinstance(t, FuncInfo) and (t.qname in reporters or ctx.cg.reachable([t.qname]) & reporters):
                        reaches = True
            if not reaches:
                continue
            for h in broad:
                reraises = any(isinstance(x, ast.Raise) for st in h.body for x in ast.walk(st))
                records = any(isinstance(x, ast.Call) and last_attr(x.func) == "add_failure" for st in h.body for x in ast.walk(st))
                rep.check("R-NO-SWALLOW", fn.qname, fn.loc(h), reraises or records, "broad-handler-around-rewrite",
                          f"a broad handler in {fn.name} swallows errors of code that rewrites / reports changes: the file is partly rewritten and never listed as failed")


def metadata_consumers(ctx) -> dict[str, set[str]]:
    """function -> parameters whose value ends up as the node of a `get_metadata(provider, node)` lookup (directly or through `self.` calls);
    least fixed point over the methods of all classes"""
    cached = getattr(ctx, "_metadata_consumers", None)
    if cached is not None:
        return cached
    from ..model import bind_args

    meta: dict[str, set[str]] = {}
    funcs = [f for f in ctx.prog.live_functions() if f.cls is not None]
    changed = True
    while changed:
        changed = False
        for f in funcs:
            params = set(f.params())
            r = ctx.resolver(f)
            for x in walk_no_nested(f.node):
                if not isinstance(x, ast.Call):
                    continue
                if last_attr(x.func) == "get_metadata" and len(x.args) >= 2 and isinstance(x.args[1], ast.Name) and x.args[1].id in params:
                    if x.args[1].id not in meta.setdefault(f.qname, set()):
                        meta[f.qname].add(x.args[1].id)
                        changed = True
                if isinstance(x.func, ast.Attribute) and isinstance(x.func.value, ast.Name) and x.func.value.id == "self":
                    try:
                        ts = [t for t in r.resolve_call(x) if isinstance(t, FuncInfo)]
                    except Exception:
                        ts = []
                    for t in ts:
                        if t.qname in meta:
                            b = bind_args(x, t, True)
                            for p_ in list(meta[t.qname]):
                                a = b.get(p_)
                                if isinstance(a, ast.Name) and a.id in params and a.id not in meta.setdefault(f.qname, set()):
                                    meta[f.qname].add(a.id)
                                    changed = True
    ctx._metadata_consumers = meta
    return meta


FRESH_FUNCS = {"parse_expression", "parse_statement", "parse_module", "parse_template_expression", "parse_template_statement", "parse_template_module"}


def fresh_node(ctx, fn: FuncInfo, e: ast.expr, depth: int = 3) -> ast.AST | None:
    """If `e` denotes a node built by this code (constructor, with_changes, parse_*), return the constructing expression: such a node
    is not part of the tree the metadata was computed for."""
    if depth <= 0 or e is None:
        return None
    if isinstance(e, ast.Call):
        la = last_attr(e.func) or ""
        f = unparse(e.func)
        if la in ("with_changes", "deep_clone", "with_deep_changes") or la in FRESH_FUNCS:
            return e
        if (f.startswith(("cst.", "libcst.")) and la[:1].isupper()):
            return e
        if la == "ensure_type" and e.args:
            return fresh_node(ctx, fn, e.args[0], depth)
        if isinstance(e.func, ast.Name) and la[:1].isupper() and (ctx.prog.resolve_dotted(fn.module, la) or "").startswith("libcst."):
            return e
        if isinstance(e.func, ast.Attribute) and isinstance(e.func.value, ast.Name) and e.func.value.id == "self":
            try:
                ts = [t for t in ctx.resolver(fn).resolve_call(e) if isinstance(t, FuncInfo)]
            except Exception:
                ts = []
            if len(ts) == 1:
                rets = [r_.value for r_ in walk_no_nested(ts[0].node) if isinstance(r_, ast.Return) and r_.value is not None]
                fr = [fresh_node(ctx, ts[0], v, depth - 1) for v in rets]
                if rets and all(x is not None for x in fr):
                    return e
        return None
    if isinstance(e, ast.Name) and e.id not in fn.params():
        sa = ctx.resolver(fn).single_assignments()
        if e.id in sa:
            return fresh_node(ctx, fn, sa[e.id], depth - 1)
    return None


def rule_metadata_original(ctx, rep, rule_id="R-METADATA-ORIGINAL"):
    rep.rule(
        rule_id,
        "metadata (scopes, positions, parents) exists only for nodes of the parsed tree: at every call of a function whose parameter ends up in a "
        "`get_metadata(provider, node)` lookup, the argument is not a node this code has just built (constructor, with_changes, parse_*, a helper "
        "returning one).  For a fresh node the lookups answer with their defaults (`no names in use`, no position, no parent): "
        "generate_available_name then hands out a name that is taken - `(p := Path(...)) for p in PAGES` does not compile",
        min_instances=100,
    )
    from ..model import bind_args

    meta = metadata_consumers(ctx)
    n = 0
    for fn in ctx.prog.live_functions():
        if fn.cls is None:
            continue
        r = ctx.resolver(fn)
        for c in walk_no_nested(fn.node):
            if not isinstance(c, ast.Call):
                continue
            pairs: list[ast.expr] = []
            if last_attr(c.func) == "get_metadata" and len(c.args) >= 2:
                pairs.append(c.args[1])
            elif isinstance(c.func, ast.Attribute) and isinstance(c.func.value, ast.Name) and c.func.value.id == "self":
                try:
                    ts = [t for t in r.resolve_call(c) if isinstance(t, FuncInfo) and t.qname in meta]
                except Exception:
                    ts = []
                for t in ts:
                    b = bind_args(c, t, True)
                    pairs += [b[p_] for p_ in meta[t.qname] if p_ in b]
            for a in pairs:
                n += 1
                fr = fresh_node(ctx, fn, a)
                rep.check(rule_id, fn.qname, fn.loc(c), fr is None, f"{last_attr(c.func)}({unparse(a)[:30]})",
                          f"`{unparse(c)[:70]}` looks up metadata for `{unparse(fr)[:50] if fr is not None else ''}`, a node built here and unknown to the metadata wrapper: "
                          "the lookup silently answers with its default")
    if n < 100:
        raise AnalysisError(f"only {n} metadata lookups found")


def rule_no_content_prune(ctx, rep, rule_id="R-NO-CONTENT-PRUNE"):
    rep.rule(
        rule_id,
        "a transformer's `visit_Module` may cut the traversal of a whole file only by *which file* it is (a condition on the file path, as the "
        "Django settings codemods do - their rules carry the same path restriction), never by a pre-check of the module's content: the "
        "detector has no such pre-check (`pattern-inside: import requests ...` also holds for an import inside a function), so a file it "
        "flagged would be skipped silently - not rewritten, not listed as failed",
        min_instances=2,
    )
    from .c02 import families

    n = 0
    seen = set()
    for tq, tm in families(ctx).items():
        for _owner, m in tm.all_methods():
            if m.name != "visit_Module" or m.qname in seen:
                continue
            seen.add(m.qname)
            ps = m.positional_params()
            node_p = ps[1] if len(ps) > 1 else None
            rets = [r_.value for r_ in walk_no_nested(m.node) if isinstance(r_, ast.Return) and r_.value is not None
                    and not (isinstance(r_.value, ast.Constant) and r_.value.value in (True, None))]
            if not rets:
                continue
            n += 1
            r = ctx.resolver(m)
            bad = None
            for v in rets:
                ev = r.expand(v)
                names = names_in(ev) | names_in(v)
                # comprehension / generator variables that range over the node's content
                if node_p and node_p in names:
                    bad = v
            rep.check(rule_id, m.qname, m.loc(bad) if bad is not None else m.loc(), bad is None, "visit_Module",
                      f"`return {unparse(bad)[:60] if bad is not None else ''}` decides from the content of `{node_p}` whether the file is traversed at all: files the detector "
                      "reported but that fail this pre-check are silently left as they are")
    if n < 2:
        raise AnalysisError(f"only {n} pruning visit_Module methods found (the Django settings codemods were confirmed by hand)")


def check(ctx, rep):
    rep.explanation = (
        "Detector and transformer describe the same construct twice (semgrep YAML and libcst code). The rule reader and the effect "
        "algebra compare them per alternative (fixed image), the kinds a rule reports are matched with the hooks that exist, and hooks "
        "that rebuild their result from the original node are found (nested reported locations reverted)."
    )
    fixed_image(ctx, rep)
    rule_hook_kind(ctx, rep)
    rule_lost_update(ctx, rep)
    rule_framework_dispatch_keeps_updates(ctx, rep)
    rule_no_swallow(ctx, rep)
    rule_alias_decides(ctx, rep)
    from .c16 import rule_args_info_fresh

    rule_args_info_fresh(ctx, rep)
    from .c07 import rule_scan_all

    rule_scan_all(ctx, rep)
    from .c07 import rule_no_dup_keyword

    rule_no_dup_keyword(ctx, rep)
    rule_scan_targets(ctx, rep)
    rule_metadata_original(ctx, rep)
    rule_no_content_prune(ctx, rep)
    from .c09 import rule_detector_fresh

    # 'detecting again after the run reports nothing': each codemod must look at the files as they are now, not at an earlier scan
    rule_detector_fresh(ctx, rep)
    from .c06 import rule_rule_keyed

    rule_rule_keyed(ctx, rep)
    from .c12 import rule_location_file_verbatim

    # findings reach a file only under the very path the directory walk yields for it
    rule_location_file_verbatim(ctx, rep)
    from .c09 import rule_fresh_visitor

    # a reported site is skipped when a helper visitor still holds what it gathered for an earlier site
    rule_fresh_visitor(ctx, rep)
    from .c09 import rule_runwide_state

    # what the detector reports for this codemod is acted on whatever an earlier codemod of the run recorded about the file
    rule_runwide_state(ctx, rep)
    rep.not_covered += [
        "agreement of semgrep positions with libcst positions for all spellings (line/column matching)",
        "semgrep's matching semantics in general (metavariable unification, taint propagation)",
    ]
