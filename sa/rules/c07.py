"""C07 — re-running a codemod on its own output changes nothing (fixed point).

R-FIXED-IMAGE             for rule-detected codemods whose edit is expressible in the effect algebra: per rule alternative the rewritten
                          code can no longer be reported (positive pattern contradicted, or a pattern-not entailed)
R-TABLE-DISJOINT          table-driven rewrites: trigger names and produced names are disjoint
R-EMPTY-DIFF-NO-CHANGESET shared with C03 ("reports no change")
"""
from __future__ import annotations

import ast

from ..effects import defeated, extract_effects
from ..model import AnalysisError, FuncInfo, call_name, last_attr, unparse, walk_no_nested
from ..semgrep_rules import alternatives
from ..templates import HOLE, eval_templates

# codemods whose detector / edit is outside the effect algebra, with the reason (listed in evidence, not judged)
NOT_MODELLED = {
    "harden-pyyaml": "positional Loader argument and class-bases rewriting (update_call + _update_bases) are outside the algebra",
    "lazy-logging": "rule text is assembled by formatting and the edit restructures a string expression",
    "django-session-cookie-secure-off": "file-selector rule (`pattern-regex: ^`): the transformer itself decides, guarded by flag_correctly_set",
    "bad-lock-with-statement": "with-item rewriting (focus-metavariable) introduces a new variable; structure change outside the algebra",
    "fix-hasattr-call": "callee replaced by with_changes(func=...) on a builtin; judged by R-HOOK-KIND only",
    "sandbox-process-creation": "pattern-not on string-literal first arguments; edit keeps arguments (Retarget judged) ",
}


# single rule alternatives outside the algebra: (codemod name, substring of the positive pattern) -> reason
NOT_MODELLED_ALTS = {
    ("jwt-decode-verify", "options={"): "options-dict branch rewrites dictionary elements (_replace_opts_dict), outside the algebra",
}


def rule_detected(ctx):
    return [cm for cm in ctx.registry.codemods if cm.detector == "semgrep-rule"]


def result_hook(ctx, cm) -> tuple[object, FuncInfo | None]:
    for tq in cm.transformers:
        if tq in ctx.prog.classes:
            tm = ctx.tmodel(tq)
            m = tm.methods.get("on_result_found")
            if m is not None:
                return tm, m
    return None, None


def fixed_image(ctx, rep, rule_id="R-FIXED-IMAGE"):
    rep.rule(
        rule_id,
        "for every rule-detected codemod inside the effect algebra and every alternative of its own semgrep rule (DNF of "
        "patterns / pattern-either), the edit read off on_result_found contradicts the positive pattern (different keyword value, "
        "callee, arity, right-hand side) or guarantees what a pattern-not describes — so detecting again reports nothing there",
        min_instances=25,
    )
    cms = rule_detected(ctx)
    if len(cms) < 22:
        raise AnalysisError(f"only {len(cms)} rule-detected codemods (22 confirmed by hand)")
    proven = 0
    for cm in cms:
        if cm.name in NOT_MODELLED and cm.name != "sandbox-process-creation":
            rep.instance(rule_id, cm.id, cm.where, True, detail="not-modelled", reason=NOT_MODELLED[cm.name])
            continue
        if not cm.rule_text:
            rep.check(rule_id, cm.id, cm.where, False, "rule-text", "the detector rule text is no longer statically recoverable")
            continue
        tm, hook = result_hook(ctx, cm)
        if hook is None:
            rep.instance(rule_id, cm.id, cm.where, True, detail="no on_result_found (custom hooks)", reason="judged by R-HOOK-KIND")
            continue
        effects, unmodelled = extract_effects(ctx, tm, hook)
        try:
            alts = alternatives(cm.rule_text)
        except Exception as e:  # yaml error in the rule itself
            rep.check(rule_id, cm.id, cm.where, False, "rule-yaml", f"detector rule does not load as YAML: {e}")
            continue
        if not effects:
            rep.check(rule_id, cm.id, hook.loc(), False, "effects", "no edit effect recognised in on_result_found (transformer stopped acting on its findings?)")
            continue
        for i, alt in enumerate(alts):
            pos = (alt.positives or alt.regexes or ["?"])[0]
            nm = next((r for (n, sub), r in NOT_MODELLED_ALTS.items() if n == cm.name and sub in pos), None)
            if nm:
                rep.instance(rule_id, cm.id, hook.loc(), True, detail=f"alt{i}:not-modelled", reason=nm)
                continue
            why = defeated(alt, effects)
            if why:
                proven += 1
            rep.check(rule_id, cm.id, hook.loc(), why is not None, f"alt{i}:{pos[:40]}",
                      f"after the fix {[repr(e) for e in effects][:4]} the rewritten code may still match `{pos[:60]}` "
                      f"(negatives {alt.negatives[:2]}): a second run would report and rewrite it again",
                      effects=[repr(e) for e in effects][:6], proof=why)
    return proven


TABLES = [
    # (function/class qualified name, attribute or method holding the mapping, description)
]


def rule_table_disjoint(ctx, rep):
    rep.rule(
        "R-TABLE-DISJOINT",
        "for table-driven rewrites (import-modifier `mapping`s, HTTPSConnection.matching_functions, deprecated-name tables): the names "
        "that trigger the rewrite and the names it produces are disjoint (otherwise the output triggers again)",
        min_instances=3,
    )
    n = 0
    base = "codemodder.codemods.import_modifier_codemod.ImportModifierCodemod"
    for cq in sorted(ctx.prog.all_subclasses(base)):
        c = ctx.prog.classes[cq]
        mp = c.methods.get("mapping")
        if mp is None:
            continue
        for d in ast.walk(mp.node):
            if isinstance(d, ast.Dict) and d.keys:
                n += 1
                keys = set()
                vals = set()
                for k, v in zip(d.keys, d.values):
                    keys |= set(eval_templates(ctx, mp, k))
                    vals |= set(eval_templates(ctx, mp, v))
                # produced call is `<value>.<last component of key>`
                produced = {f"{v}.{k.split('.')[-1]}" for k in keys for v in vals} | vals
                clash = keys & produced
                rep.check("R-TABLE-DISJOINT", cq, mp.loc(d), not clash, "mapping",
                          f"mapping produces {sorted(clash)} which are themselves triggers", triggers=sorted(keys)[:6], produced=sorted(vals)[:6])
    # https connection
    hq = "core_codemods.https_connection.HTTPSConnectionModifier"
    owner = None
    for c in ctx.prog.classes.values():
        if "matching_functions" in c.attrs and isinstance(c.attrs["matching_functions"], (ast.Set, ast.List)):
            n += 1
            trig = {t for e in c.attrs["matching_functions"].elts for t in eval_templates(ctx, next(iter(c.methods.values())), e)} if c.methods else set()
            prod = {"urllib3.HTTPSConnectionPool", "urllib3.connectionpool.HTTPSConnectionPool"}
            rep.check("R-TABLE-DISJOINT", c.qname, c.loc(c.attrs["matching_functions"]), not (trig & prod), "matching_functions",
                      f"{sorted(trig & prod)} is both trigger and product", triggers=sorted(trig))
    # timezone / deprecated tables: dict constants mapping old -> new inside core_codemods
    for mod in ctx.prog.modules.values():
        if not mod.name.startswith("core_codemods."):
            continue
        for name, val in mod.constants.items():
            if isinstance(val, ast.Dict) and val.keys and name.isupper() and all(isinstance(k, ast.Constant) and isinstance(k.value, str) for k in val.keys) and all(isinstance(v, ast.Constant) and isinstance(v.value, str) for v in val.values):
                n += 1
                keys = {k.value for k in val.keys}
                vals = {v.value for v in val.values}
                rep.check("R-TABLE-DISJOINT", f"{mod.name}.{name}", f"src/{mod.relpath}:{val.lineno}", not (keys & vals), "table",
                          f"{sorted(keys & vals)} is both replaced and produced")
    if n < 3:
        raise AnalysisError("table-driven rewrite tables not found")


def rule_scan_all(ctx, rep, rule_id="R-SCAN-ALL-ELEMENTS"):
    """Shared by C07 / C18: a presence test that only ever looks at the first element re-applies the edit on the next run."""
    from ..inline import _always_exits

    rep.rule(
        rule_id,
        "in the classes of registered codemods (transformers, their helper visitors and mixins), a `for` loop that decides something "
        "per element (its body branches) can reach its next iteration: a body that returns or raises on every path examines only the "
        "first element, so e.g. an 'is the key already there?' scan answers for the first key only and the codemod adds it again",
        min_instances=50,
    )
    def never_iterates_again(stmts) -> bool:
        """every path through the loop body ends the loop (return / raise / break); a path that ends in `continue`, or falls off the end of
        the body, reaches the next element"""
        for i, st in enumerate(stmts):
            if isinstance(st, (ast.Return, ast.Raise, ast.Break)):
                return True
            if isinstance(st, ast.Continue):
                return False
            if isinstance(st, ast.If):
                a, b = never_iterates_again(st.body), never_iterates_again(st.orelse) if st.orelse else False
                if a and b:
                    return True
                # an arm that ends in `continue` goes to the next element, whatever the other arm and the following statements do
                if any(isinstance(x, ast.Continue) for arm in (st.body, st.orelse) for x in ast.walk(ast.Module(body=arm, type_ignores=[]))):
                    return False
            elif isinstance(st, ast.Try):
                if never_iterates_again(st.body) and all(never_iterates_again(h.body) for h in st.handlers) and (not st.orelse or never_iterates_again(st.orelse)):
                    return True
            elif isinstance(st, (ast.With, ast.AsyncWith)):
                if never_iterates_again(st.body):
                    return True
            elif isinstance(st, ast.Match):
                if st.cases and all(never_iterates_again(c.body) for c in st.cases) and any(isinstance(c.pattern, ast.MatchAs) and c.pattern.pattern is None and c.guard is None for c in st.cases):
                    return True
        return False

    classes = set(ctx.registry.transformer_classes().keys())
    if len(classes) < 50:
        raise AnalysisError("registry model lists fewer than 50 transformer classes")
    closure = set()
    for cq in classes:
        closure |= set(m for m in ctx.prog.mro(cq) if m in ctx.prog.classes)
    # helper visitors living in the same modules
    mods = {ctx.prog.classes[c].module.name for c in closure}
    closure |= {c.qname for c in ctx.prog.classes.values() if c.module.name in mods}
    n = 0
    for cq in sorted(closure):
        for m in ctx.prog.classes[cq].methods.values():
            for lp in walk_no_nested(m.node):
                if not isinstance(lp, (ast.For, ast.AsyncFor)):
                    continue
                branches = any(isinstance(x, (ast.If, ast.Match, ast.IfExp)) for st in lp.body for x in ast.walk(st))
                if not branches:
                    continue  # `for x in xs: return x` (first element on purpose) decides nothing per element
                n += 1
                rep.check(rule_id, m.qname, m.loc(lp), not never_iterates_again(lp.body), f"for {unparse(lp.target)[:20]} in {unparse(lp.iter)[:30]}",
                          f"every path through the body of `for {unparse(lp.target)} in {unparse(lp.iter)[:40]}` leaves the function: only the first element is ever examined")
    if n < 50:
        raise AnalysisError(f"only {n} deciding loops found in codemod classes")


def rule_no_dup_keyword(ctx, rep, rule_id="R-NO-DUP-KEYWORD"):
    """Shared by C01 / C07 / C18: appending keyword K to a call that may already have K gives `f(K=a, K=b)` -- a SyntaxError."""
    from ..semgrep_rules import parse_call

    rep.rule(
        rule_id,
        "for every rule-detected codemod whose edit *appends* a keyword argument K (add_arg_to_call / a rebuilt `[*args, Arg(keyword=K)]`): "
        "every alternative of its own detector rule excludes calls that already carry K (a pattern-not on `K=...`, or a closed argument "
        "list without K) -- otherwise some reported call gets K twice and the file no longer parses",
        min_instances=1,
    )
    n = 0
    for cm in rule_detected(ctx):
        if not cm.rule_text:
            continue
        tm, hook = result_hook(ctx, cm)
        if hook is None:
            continue
        effects, _unm = extract_effects(ctx, tm, hook)
        appended = sorted({e.name for e in effects if e.kind == "AppendKw" and e.name and HOLE not in e.name})
        if not appended:
            continue
        try:
            alts = alternatives(cm.rule_text)
        except Exception:
            continue
        for K in appended:
            for i, alt in enumerate(alts):
                pos_calls = [c for c in (parse_call(p) for p in alt.positives) if c is not None]
                neg_calls = [c for c in (parse_call(p) for p in alt.negatives) if c is not None]
                if not pos_calls:
                    continue
                n += 1
                explicit = any(c.kw(K) is not None for c in pos_calls)
                open_ = any(c.open_arity for c in pos_calls)
                # a pattern-not excludes *every* call with K only if it constrains nothing else: `f(..., K=$X, ...)`
                excluded = any(
                    c.kw(K) is not None and (c.kw(K).text.startswith("$") or c.kw(K).text == "...")
                    and all(a.kind == "ellipsis" or a is c.kw(K) for a in c.args)
                    for c in neg_calls
                )
                ok = not explicit and (excluded or not open_)
                rep.check(rule_id, cm.id, hook.loc(), ok, f"{K}@alt{i}",
                          f"the edit appends `{K}=...` but rule alternative `{(alt.positives or ['?'])[0][:50]}` "
                          + ("explicitly reports calls that already pass it" if explicit else "does not exclude calls that already pass it")
                          + f": such a call becomes `f(..., {K}=old, ..., {K}=new)` (SyntaxError: keyword argument repeated)")
    if n == 0:
        rep.instance(rule_id, "codebase", "src/", True, detail="no rule-detected codemod appends a keyword")


def _shape_attrs(ctx, fn: FuncInfo, param: str, depth: int = 2, _seen=None, within: list | None = None) -> dict[str, ast.AST]:
    """Child attributes of the node bound to `param` whose *shape* (node class / matcher) fn tests: isinstance(p.a, ...), m.matches(p.a, ...),
    `match p.a`, m.matches(p, m.T(a=...)), `match p: case cst.T(a=...)`, also through methods of the class that receive p."""
    _seen = _seen or set()
    if (fn.qname, param) in _seen:
        return {}
    _seen.add((fn.qname, param))
    out: dict[str, ast.AST] = {}

    def attr_of(e):
        return e.attr if isinstance(e, ast.Attribute) and isinstance(e.value, ast.Name) and e.value.id == param else None

    def matcher_fields(e, r):
        e = r.expand(e) if isinstance(e, ast.Name) else e
        if isinstance(e, ast.Call):
            return [k.arg for k in e.keywords if k.arg]
        return []

    r = ctx.resolver(fn)
    for c in (walk_no_nested(fn.node) if within is None else (y for w in within for y in ast.walk(w))):
        if isinstance(c, ast.Call):
            f = unparse(c.func)
            if f == "isinstance" and c.args:
                a = attr_of(c.args[0])
                if a:
                    out.setdefault(a, c)
            elif f.endswith("matches") and len(c.args) >= 2:
                a = attr_of(c.args[0])
                if a:
                    out.setdefault(a, c)
                elif isinstance(c.args[0], ast.Name) and c.args[0].id == param:
                    for k in matcher_fields(c.args[1], r):
                        out.setdefault(k, c)
            elif depth and isinstance(c.func, ast.Attribute) and isinstance(c.func.value, ast.Name) and c.func.value.id == "self":
                pos = [i for i, a in enumerate(c.args) if isinstance(a, ast.Name) and a.id == param]
                kws = [k.arg for k in c.keywords if isinstance(k.value, ast.Name) and k.value.id == param]
                if pos or kws:
                    try:
                        ts = [t for t in r.resolve_call(c) if isinstance(t, FuncInfo)]
                    except Exception:
                        ts = []
                    for t in ts:
                        pp = t.positional_params()[1:]
                        for i in pos:
                            if i < len(pp):
                                for k, v in _shape_attrs(ctx, t, pp[i], depth - 1, _seen).items():
                                    out.setdefault(k, c)
                        for kw in kws:
                            for k, v in _shape_attrs(ctx, t, kw, depth - 1, _seen).items():
                                out.setdefault(k, c)
        elif isinstance(c, ast.Match):
            a = attr_of(c.subject)
            if a:
                out.setdefault(a, c)
            elif isinstance(c.subject, ast.Name) and c.subject.id == param:
                for cs in c.cases:
                    for pat in ast.walk(cs.pattern):
                        if isinstance(pat, ast.MatchClass):
                            for k in pat.kwd_attrs:
                                out.setdefault(k, c)
                            break
    return out


def rule_fold_sees_updated(ctx, rep, rule_id="R-FOLD-SEES-UPDATED"):
    rep.rule(
        rule_id,
        "a leave_ hook that decides on the shape of a child of *updated_node* (its children may have been rewritten by the same transformer "
        "on the way up: `(a or b) or (c or d)` folds inside-out) does not also decide on the shape of the same child of *original_node*: "
        "the two beliefs contradict each other, and a stale pre-filter on the original child makes the first run stop half-way while a "
        "second run finishes the job (no fixed point)",
        min_instances=10,
    )
    from .c02 import families

    n = 0
    seen = set()
    for tq, tm in families(ctx).items():
        for cls in tm.classes:
            for m in cls.methods.values():
                if not m.name.startswith("leave_") or m.qname in seen:
                    continue
                ps = m.positional_params()
                if len(ps) < 3:
                    continue
                seen.add(m.qname)
                o, u = ps[1], ps[2]
                # pre-filters: conditions under which the hook gives up at once (`if <test>: return updated_node`)
                skips = [st.test for st in walk_no_nested(m.node) if isinstance(st, ast.If) and len(st.body) == 1 and isinstance(st.body[0], ast.Return)
                         and isinstance(st.body[0].value, ast.Name) and st.body[0].value.id in (o, u)]
                O = _shape_attrs(ctx, m, o, within=skips) if skips else {}
                U = _shape_attrs(ctx, m, u)
                n += 1
                both = sorted(set(O) & set(U))
                rep.check(rule_id, m.qname, m.loc(O[both[0]]) if both else m.loc(), not both, "original-vs-updated-child",
                          f"the shape of `{o}.{both[0] if both else ''}` is tested here while the hook also decides on `{u}.{both[0] if both else ''}`: after an inner "
                          "node was rewritten the two differ, so the outer node is skipped in this run and rewritten in the next one")
    if n < 10:
        raise AnalysisError(f"only {n} leave_ hooks found in registered transformers")


def rule_no_work_budget(ctx, rep, rule_id="R-NO-WORK-BUDGET"):
    rep.rule(
        rule_id,
        "no method of a registered transformer gives up by a *budget*: a counter kept on the instance (`self.n += 1`) compared with a "
        "bound that guards an early return of the unchanged input / a break out of the work loop.  Work cut off by a budget is finished "
        "by the next run (second run reports changes), and the first run reports success",
        min_instances=50,
    )
    from .c02 import families

    n = 0
    seen = set()
    for tq, tm in families(ctx).items():
        for cls in tm.classes:
            if cls.qname in seen:
                continue
            seen.add(cls.qname)
            counters = set()
            for m in cls.methods.values():
                for a in walk_no_nested(m.node):
                    if isinstance(a, ast.AugAssign) and isinstance(a.op, ast.Add) and isinstance(a.target, ast.Attribute) and isinstance(a.target.value, ast.Name) and a.target.value.id == "self":
                        counters.add(a.target.attr)
            n += 1
            bad = None
            for m in cls.methods.values():
                params = set(m.params())
                for st in walk_no_nested(m.node):
                    if not isinstance(st, ast.If) or not isinstance(st.test, ast.Compare):
                        continue
                    used = {x.attr for x in ast.walk(st.test) if isinstance(x, ast.Attribute) and isinstance(x.value, ast.Name) and x.value.id == "self"} & counters
                    if not used or not isinstance(st.test.ops[0], (ast.Gt, ast.GtE, ast.Lt, ast.LtE)):
                        continue
                    b = st.body[-1]
                    gives_up = isinstance(b, (ast.Break, ast.Continue)) or (isinstance(b, ast.Return) and (b.value is None or (isinstance(b.value, ast.Name) and b.value.id in params)))
                    if gives_up:
                        bad = (m, st, sorted(used)[0])
            rep.check(rule_id, cls.qname, bad[0].loc(bad[1]) if bad else cls.loc(), bad is None, "budget",
                      f"`if {unparse(bad[1].test)[:60]}:` gives up once the counter self.{bad[2]} passes a bound: what is left is done by the next run" if bad else "")
    if n < 50:
        raise AnalysisError(f"only {n} transformer classes scanned")


def check(ctx, rep):
    rep.explanation = (
        "The 22 codemods with a semgrep rule of their own are described twice in the repository: as a rule (YAML) and as a libcst "
        "edit. Both are recovered statically (rule text via the constant evaluator, edit via the effect algebra) and compared: per "
        "rule alternative the edited code must be unmatchable. Table-driven rewrites are checked for trigger/product disjointness."
    )
    fixed_image(ctx, rep)
    rule_table_disjoint(ctx, rep)
    rule_scan_all(ctx, rep)
    rule_no_dup_keyword(ctx, rep)
    from .c03 import rule_empty_diff

    rule_empty_diff(ctx, rep)
    from .c06 import rule_rule_keyed

    rule_rule_keyed(ctx, rep)
    rule_fold_sees_updated(ctx, rep)
    rule_no_work_budget(ctx, rep)
    from .c18 import rule_lost_update

    # an inner fix reverted by the enclosing hook is made by the *next* run: the first run is not a fixed point (all libcst codemods)
    rule_lost_update(ctx, rep, all_codemods=True)
    from .c05 import rule_fileset_source

    # the second run must look at the same selection as the first: files taken from the detector's findings instead of the selected paths
    # are rewritten once the first run has emptied the prefilter (the detector then scans the whole directory)
    rule_fileset_source(ctx, rep)
    from .c16 import rule_args_info_fresh

    # sites skipped because a shared specification was consumed are fixed by the *second* run: not a fixed point
    rule_args_info_fresh(ctx, rep)
    from .c12 import rule_merge_op

    # a second run over the first run's output must find nothing left: result sets of scan batches / result files are combined with the
    # lossless merge, never with dict.update (each rule would keep only its last batch, and the next run fixes the rest)
    rule_merge_op(ctx, rep)
    rep.not_covered += [
        "fixed point for arbitrary programs and for codemods without a rule of their own (beyond the table rule)",
        "codemods listed as not-modelled: " + ", ".join(sorted(NOT_MODELLED)),
        "pattern-inside / taint sources (context) are ignored by the rule reader",
    ]
