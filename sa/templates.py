"""E6: template evaluator — the code text a transformer emits by name.

A template is a string with typed holes.  `eval_templates(ctx, fn, expr)` returns the set of alternative strings an
expression can evaluate to; non-constant parts become the placeholder HOLE (an identifier, so templates stay parseable).
"""
from __future__ import annotations

import ast
import builtins
import textwrap
from dataclasses import dataclass
from typing import Optional

from .model import FuncInfo, call_name, dotted_name, last_attr, unparse, walk_no_nested

HOLE = "HOLE__"
BUILTINS = set(dir(builtins))
MAX_ALTS = 16


def eval_templates(ctx, fn: FuncInfo, e: ast.AST | None, depth: int = 8) -> list[str]:
    """All strings `e` may evaluate to (holes for unknown parts)."""
    out = []
    for s, _ in eval_templates_c(ctx, fn, e, depth):
        if s not in out:
            out.append(s)
    return out


def eval_templates_c(ctx, fn: FuncInfo, e: ast.AST | None, depth: int = 8) -> list[tuple[str, frozenset]]:
    """Conditional alternatives: (string, facts under which this alternative arises)."""
    from .flow import cond_facts

    if e is None or depth <= 0:
        return [(HOLE, frozenset())]
    if isinstance(e, ast.NamedExpr):
        return eval_templates_c(ctx, fn, e.value, depth - 1)
    r = ctx.resolver(fn)
    if isinstance(e, ast.Name):
        sa = r.single_assignments()
        if e.id in sa:
            return eval_templates_c(ctx, fn, sa[e.id], depth - 1)
    if isinstance(e, ast.IfExp):
        a = [(s, c | frozenset(cond_facts(e.test, True))) for s, c in eval_templates_c(ctx, fn, e.body, depth - 1)]
        b = [(s, c | frozenset(cond_facts(e.test, False))) for s, c in eval_templates_c(ctx, fn, e.orelse, depth - 1)]
        return (a + b)[:MAX_ALTS]
    if isinstance(e, ast.BoolOp) and isinstance(e.op, ast.Or):
        out = []
        neg: frozenset = frozenset()
        for i, v in enumerate(e.values):
            last = i == len(e.values) - 1
            for s, c in eval_templates_c(ctx, fn, v, depth - 1):
                out.append((s, c | neg | (frozenset() if last else frozenset(cond_facts(v, True)))))
            neg = neg | frozenset(cond_facts(v, False))
        return out[:MAX_ALTS]
    if isinstance(e, ast.JoinedStr):
        alts: list[tuple[str, frozenset]] = [("", frozenset())]
        for v in e.values:
            if isinstance(v, ast.Constant):
                parts = [(str(v.value), frozenset())]
            elif isinstance(v, ast.FormattedValue):
                parts = eval_templates_c(ctx, fn, v.value, depth - 1)
            else:
                parts = [(HOLE, frozenset())]
            alts = [(a + p, ca | cp) for a, ca in alts for p, cp in parts][:MAX_ALTS]
        return alts
    if isinstance(e, ast.BinOp) and isinstance(e.op, ast.Add):
        a = eval_templates_c(ctx, fn, e.left, depth - 1)
        b = eval_templates_c(ctx, fn, e.right, depth - 1)
        return [(x + y, cx | cy) for x, cx in a for y, cy in b][:MAX_ALTS]
    return [(s, frozenset()) for s in _eval_plain(ctx, fn, e, depth)]


def _eval_plain(ctx, fn: FuncInfo, e: ast.AST | None, depth: int = 8) -> list[str]:
    if e is None or depth <= 0:
        return [HOLE]
    r = ctx.resolver(fn)
    if isinstance(e, ast.Constant):
        if isinstance(e.value, str):
            return [e.value]
        if isinstance(e.value, (int, float, bool)) or e.value is None:
            return [repr(e.value)]
        return [HOLE]
    if isinstance(e, ast.NamedExpr):
        return eval_templates(ctx, fn, e.value, depth - 1)
    if isinstance(e, ast.JoinedStr):
        alts = [""]
        for v in e.values:
            if isinstance(v, ast.Constant):
                parts = [str(v.value)]
            elif isinstance(v, ast.FormattedValue):
                parts = eval_templates(ctx, fn, v.value, depth - 1)
            else:
                parts = [HOLE]
            alts = [a + p for a in alts for p in parts][:MAX_ALTS]
        return alts
    if isinstance(e, ast.BinOp) and isinstance(e.op, ast.Add):
        a = eval_templates(ctx, fn, e.left, depth - 1)
        b = eval_templates(ctx, fn, e.right, depth - 1)
        return [x + y for x in a for y in b][:MAX_ALTS]
    if isinstance(e, ast.BinOp) and isinstance(e.op, ast.Mod):
        a = eval_templates(ctx, fn, e.left, depth - 1)
        return [x.replace("%s", HOLE).replace("%r", HOLE).replace("%d", HOLE) for x in a]
    if isinstance(e, ast.IfExp):
        return (eval_templates(ctx, fn, e.body, depth - 1) + eval_templates(ctx, fn, e.orelse, depth - 1))[:MAX_ALTS]
    if isinstance(e, ast.BoolOp) and isinstance(e.op, ast.Or):
        out = []
        for v in e.values:
            out += eval_templates(ctx, fn, v, depth - 1)
        return out[:MAX_ALTS]
    if isinstance(e, ast.Name):
        sa = r.single_assignments()
        if e.id in sa:
            return eval_templates(ctx, fn, sa[e.id], depth - 1)
        if e.id in fn.params():
            return [HOLE]
        # re-assigned local: union of all assigned values
        vals = [
            n.value for n in walk_no_nested(fn.node)
            if isinstance(n, ast.Assign) and any(isinstance(t, ast.Name) and t.id == e.id for t in n.targets)
        ]
        if vals:
            out = []
            for v in vals:
                out += eval_templates(ctx, fn, v, depth - 1)
            return out[:MAX_ALTS]
        if e.id in fn.module.constants:
            return eval_templates(ctx, _module_fn(ctx, fn), fn.module.constants[e.id], depth - 1)
        q = ctx.prog.resolve_dotted(fn.module, e.id)
        s = ctx.registry._const_qname(q, 6) if q else None
        return [s] if s is not None else [HOLE]
    if isinstance(e, ast.Attribute):
        # self.CONST / cls.CONST / Class.CONST / module.CONST
        if isinstance(e.value, ast.Name) and e.value.id in ("self", "cls") and fn.cls is not None:
            # class-level constant possibly overridden in subclasses: take the defining class and all subclasses
            out = []
            for cq in [fn.cls.qname] + sorted(ctx.prog.all_subclasses(fn.cls.qname)):
                got = ctx.prog.lookup_attr(cq, e.attr)
                if got:
                    s = ctx.registry.const_str(got[0].module, got[1])
                    if s is not None and s not in out:
                        out.append(s)
            return out[:MAX_ALTS] or [HOLE]
        d = dotted_name(e)
        if d:
            q = ctx.prog.resolve_dotted(fn.module, d)
            s = ctx.registry._const_qname(q, 6) if q else None
            if s is not None:
                return [s]
        return [HOLE]
    if isinstance(e, ast.Call):
        cn = call_name(e)
        if cn in ("str", "repr") and e.args:
            return eval_templates(ctx, fn, e.args[0], depth - 1)
        if cn in ("textwrap.dedent", "dedent") and e.args:
            return [textwrap.dedent(x) for x in eval_templates(ctx, fn, e.args[0], depth - 1)]
        if isinstance(e.func, ast.Attribute) and e.func.attr == "format":
            base = eval_templates(ctx, fn, e.func.value, depth - 1)
            out = []
            for b in base:
                s = b
                for i, a in enumerate(e.args):
                    vals = eval_templates(ctx, fn, a, depth - 1)
                    s = s.replace("{}", vals[0] if vals else HOLE, 1).replace("{%d}" % i, vals[0] if vals else HOLE)
                for k in e.keywords:
                    vals = eval_templates(ctx, fn, k.value, depth - 1)
                    s = s.replace("{%s}" % k.arg, vals[0] if vals else HOLE)
                out.append(s)
            return out
        if isinstance(e.func, ast.Attribute) and e.func.attr in ("strip", "lstrip", "rstrip", "lower", "upper") and not e.args:
            return [getattr(x, e.func.attr)() if HOLE not in x else x for x in eval_templates(ctx, fn, e.func.value, depth - 1)]
        if isinstance(e.func, ast.Attribute) and e.func.attr == "join" and isinstance(e.func.value, ast.Constant):
            return [HOLE]
        return [HOLE]
    return [HOLE]


def _module_fn(ctx, fn: FuncInfo) -> FuncInfo:
    return fn


def free_roots(template: str) -> Optional[set[str]]:
    """Root identifiers read by the code in `template` that are not bound inside it and are not builtins.

    None if the template does not parse as an expression or statement(s)."""
    src = template
    tree = None
    for mode in ("eval", "exec"):
        try:
            tree = ast.parse(textwrap.dedent(src).strip(), mode=mode)
            break
        except SyntaxError:
            continue
    if tree is None:
        return None
    bound: set[str] = set()
    loads: set[str] = set()
    for n in ast.walk(tree):
        if isinstance(n, ast.Name):
            if isinstance(n.ctx, ast.Load):
                loads.add(n.id)
            else:
                bound.add(n.id)
        elif isinstance(n, ast.arg):
            bound.add(n.arg)
        elif isinstance(n, (ast.FunctionDef, ast.ClassDef, ast.AsyncFunctionDef)):
            bound.add(n.name)
        elif isinstance(n, ast.alias):
            bound.add((n.asname or n.name).split(".")[0])
        elif isinstance(n, ast.ExceptHandler) and n.name:
            bound.add(n.name)
    return {x for x in loads if x not in bound and x not in BUILTINS and not x.startswith(HOLE[:-2]) and x != "self"}


@dataclass
class Emit:
    fn: FuncInfo
    node: ast.AST  # the emitting call
    api: str  # update_call_target / NewArg / parse_expression / cst.Name ...
    templates: list[str]
    roots: set[str]
    slot: str = ""  # e.g. keyword name for NewArg


NAME_NON_REFERENCE_KW = {"attr", "keyword", "name", "asname", "target", "arg"}


def emits_in(ctx, fn: FuncInfo) -> list[Emit]:
    """Code-by-name emission sites in one function."""
    out: list[Emit] = []
    pm = None
    r = ctx.resolver(fn)
    for n in walk_no_nested(fn.node):
        if not isinstance(n, ast.Call):
            continue
        la = last_attr(n.func)
        q = r.callee_qname(n) if dotted_name(n.func) else None
        tmpl_expr = None
        api = None
        slot = ""
        if la == "update_call_target" and len(n.args) >= 2:
            api, tmpl_expr = "update_call_target", n.args[1]
        elif la == "NewArg" or (q or "").endswith(".NewArg"):
            kw = {k.arg: k.value for k in n.keywords}
            tmpl_expr = kw.get("value") or (n.args[1] if len(n.args) > 1 else None)
            nm = kw.get("name") or (n.args[0] if n.args else None)
            slot = (eval_templates(ctx, fn, nm) or [""])[0] if nm is not None else ""
            api = "NewArg"
        elif la == "add_arg_to_call" and len(n.args) >= 3:
            api, tmpl_expr = "add_arg_to_call", n.args[2]
            slot = (eval_templates(ctx, fn, n.args[1]) or [""])[0]
        elif la == "update_assign_rhs" and len(n.args) >= 2:
            api, tmpl_expr = "update_assign_rhs", n.args[1]
        elif la in ("parse_expression", "parse_statement", "parse_module") and n.args:
            api, tmpl_expr = la, n.args[0]
        elif la == "make_new_arg" and n.args:
            api, tmpl_expr = "make_new_arg", n.args[0]
        elif (q in ("libcst.Name",) or unparse(n.func) in ("cst.Name", "Name")) and (n.args or n.keywords):
            v = n.args[0] if n.args else next((k.value for k in n.keywords if k.arg == "value"), None)
            pm = pm or ctx.parents(fn)
            par = pm.get(id(n))
            if isinstance(par, ast.keyword) and par.arg in NAME_NON_REFERENCE_KW:
                continue
            # first positional argument of cst.Attribute(value, attr): value position; second: attr
            if isinstance(par, ast.Call) and last_attr(par.func) in ("Attribute",) and par.args and len(par.args) >= 2 and par.args[1] is n:
                continue
            if isinstance(par, ast.Call) and last_attr(par.func) in ("ImportAlias", "Param", "AsName", "NameItem"):
                continue
            api, tmpl_expr = "cst.Name", v
        if api is None or tmpl_expr is None:
            continue
        tmpls = eval_templates(ctx, fn, tmpl_expr)
        roots: set[str] = set()
        for t in tmpls:
            fr = free_roots(t)
            if fr:
                roots |= fr
        out.append(Emit(fn, n, api, tmpls, roots, slot))
    return out


def import_events(ctx, fn: FuncInfo, call: ast.Call) -> list[str]:
    """Names made available by an import-scheduling call (add_needed_import & co)."""
    la = last_attr(call.func)
    if la not in ("add_needed_import", "add_import"):
        return []
    args = list(call.args)
    kw = {k.arg: k.value for k in call.keywords}
    # AddImportsVisitor.add_needed_import(context, module, obj=None, asname=None)
    if dotted_name(call.func) and (dotted_name(call.func) or "").split(".")[0] not in ("self",):
        args = args[1:]
    module = args[0] if args else kw.get("module")
    obj = args[1] if len(args) > 1 else kw.get("obj")
    asname = args[2] if len(args) > 2 else kw.get("asname")
    names: list[str] = []
    if asname is not None and not (isinstance(asname, ast.Constant) and asname.value is None):
        names += eval_templates(ctx, fn, asname)
    elif obj is not None and not (isinstance(obj, ast.Constant) and obj.value is None):
        names += eval_templates(ctx, fn, obj)
    elif module is not None:
        names += [m.split(".")[0] for m in eval_templates(ctx, fn, module)]
    return names
