"""R-ARGS-PRESERVED: a hook that rebuilds a call's argument list keeps every original argument it does not replace.

Shared by C08 (refactoring codemods) and C16 (hardening codemods).
"""
from __future__ import annotations

import ast

from .flow import fact_exprs
from .model import FuncInfo, call_name, last_attr, names_in, unparse, walk_no_nested

# callee's signature bounds the arity: (class, method) -> reason
ARITY_BOUNDED = {
    ("core_codemods.fix_hasattr_call.TransformFixHasattrCall", "on_result_found"): "builtin hasattr takes exactly two arguments and the detector requires the second to be \"__call__\"; it is dropped on purpose",
    ("core_codemods.harden_pyyaml.HardenPyyamlCallMixin", "update_call"): "yaml.load(stream, Loader) takes at most 2 parameters; [*args[:1], loader] is complete",
}


def _is_args_attr(e: ast.AST) -> bool:
    return isinstance(e, ast.Attribute) and e.attr == "args"


def _arity_fact(ctx, fn: FuncInfo, site: ast.AST, k_needed: int | None) -> str | None:
    """A dominating fact that bounds len(<x>.args) (==k, or a fixed-length match pattern)."""
    fa = ctx.flow(fn)
    must = fa.must_at(site)
    for pol, txt in must:
        if txt.startswith("MATCH:") and pol:
            _, subj, pat = txt.split(":", 2)
            if subj.endswith(".args") and pat.startswith("[") and "*" not in pat:
                return f"match {subj} against fixed-length pattern {pat[:40]}"
            # match on the call node with args=[...] pattern
            if "args=[" in pat and "*" not in pat.split("args=[", 1)[1].split("]")[0]:
                return f"match pattern with fixed-length args in {pat[:50]}"
    for pol, e in fact_exprs(must):
        if isinstance(e, ast.Compare) and len(e.ops) == 1 and isinstance(e.left, ast.Call) and call_name(e.left) == "len" and e.left.args:
            a0 = e.left.args[0]
            target = a0.value if isinstance(a0, ast.NamedExpr) else a0
            if _is_args_attr(target) or (isinstance(target, ast.Name) and "arg" in target.id):
                op = e.ops[0]
                c = e.comparators[0]
                if isinstance(c, ast.Constant) and isinstance(c.value, int):
                    if pol and isinstance(op, ast.Eq):
                        return f"len(args) == {c.value}"
                    if pol and isinstance(op, (ast.Lt, ast.LtE)):
                        return f"len(args) {'<' if isinstance(op, ast.Lt) else '<='} {c.value}"
                    if (not pol) and isinstance(op, (ast.Gt, ast.GtE)):
                        return f"not len(args) {'>' if isinstance(op, ast.Gt) else '>='} {c.value}"
    return None


def classify_args_expr(ctx, fn: FuncInfo, e: ast.expr, site: ast.AST, depth: int = 4) -> tuple[str, str]:
    """-> (verdict, explanation); verdict in complete | partial | dropped | unknown"""
    r = ctx.resolver(fn)
    if depth <= 0:
        return "unknown", unparse(e)[:40]
    if isinstance(e, ast.Name):
        sa = r.single_assignments()
        if e.id in sa:
            return classify_args_expr(ctx, fn, sa[e.id], site, depth - 1)
        # list built in a loop over <x>.args, or re-assigned in branches
        vals = [n.value for n in walk_no_nested(fn.node) if isinstance(n, ast.Assign) and any(isinstance(t, ast.Name) and t.id == e.id for t in n.targets)]
        loops = [n for n in walk_no_nested(fn.node) if isinstance(n, ast.For) and _is_args_attr(n.iter) or (isinstance(n, ast.For) and isinstance(n.iter, ast.Call) and n.iter.args and _is_args_attr(n.iter.args[0]))]
        for lp in loops:
            apps = [c for c in ast.walk(lp) if isinstance(c, ast.Call) and last_attr(c.func) == "append" and isinstance(c.func, ast.Attribute) and unparse(c.func.value) == e.id]
            if apps and not any(isinstance(x, (ast.Continue, ast.Break)) for x in ast.walk(lp)):
                return "complete", f"{e.id} is filled by a loop over the original args appending one element per argument"
        if vals:
            verdicts = []
            for n in walk_no_nested(fn.node):
                if isinstance(n, ast.Assign) and any(isinstance(t, ast.Name) and t.id == e.id for t in n.targets):
                    v = n.value
                    if isinstance(v, ast.List) and not v.elts:
                        continue
                    vd = classify_args_expr(ctx, fn, v, n, depth - 1)
                    if vd[0] in ("partial", "dropped"):
                        af = _arity_fact(ctx, fn, n, None)
                        if af is not None:
                            vd = ("complete", f"{vd[1]} under `{af}`")
                    verdicts.append(vd)
            if verdicts:
                worst = sorted(verdicts, key=lambda t: ["complete", "tail", "unknown", "partial", "dropped"].index(t[0]))[-1]
                return worst
        if e.id in fn.params():
            return "unknown", f"parameter {e.id}"
        return "unknown", e.id
    if isinstance(e, ast.IfExp):
        a = classify_args_expr(ctx, fn, e.body, site, depth - 1)
        b = classify_args_expr(ctx, fn, e.orelse, site, depth - 1)
        return sorted([a, b], key=lambda t: ["complete", "tail", "unknown", "partial", "dropped"].index(t[0]))[-1]
    if _is_args_attr(e):
        return "complete", unparse(e)
    if isinstance(e, ast.Subscript) and _is_args_attr(e.value) and isinstance(e.slice, ast.Slice) and e.slice.upper is None and e.slice.step is None:
        return "tail", f"{unparse(e)} keeps every argument from that index on"
    if isinstance(e, ast.Call):
        la = last_attr(e.func)
        if la in ("replace_args", "replace_arg", "updated_args"):
            return "complete", f"{la}(...) keeps unmatched arguments"
        if call_name(e) in ("list", "tuple") and e.args:
            return classify_args_expr(ctx, fn, e.args[0], site, depth - 1)
        for t in r.resolve_call(e):
            if isinstance(t, FuncInfo) and t.cls is not None:
                rets = [n for n in walk_no_nested(t.node) if isinstance(n, ast.Return) and n.value is not None]
                if rets:
                    vs = []
                    for rn in rets:
                        vd = classify_args_expr(ctx, t, rn.value, rn.value, depth - 1)
                        if vd[0] in ("partial", "dropped"):
                            # the helper's own arity test (`if len(args) == 1 and args[0].keyword is None: return [new]`) justifies it
                            af = _arity_fact(ctx, t, rn, None)
                            if af is not None:
                                vd = ("complete", f"{vd[1]} under `{af}`")
                        vs.append(vd)
                    return sorted(vs, key=lambda x: ["complete", "tail", "unknown", "partial", "dropped"].index(x[0]))[-1]
        return "unknown", unparse(e)[:40]
    if isinstance(e, ast.BinOp) and isinstance(e.op, ast.Add):
        a = classify_args_expr(ctx, fn, e.left, site, depth - 1)
        b = classify_args_expr(ctx, fn, e.right, site, depth - 1)
        if "complete" in (a[0], b[0]) or "tail" in (a[0], b[0]):
            return "complete", f"{a[1]} + {b[1]}"
        return sorted([a, b], key=lambda t: ["complete", "tail", "unknown", "partial", "dropped"].index(t[0]))[-1]
    if isinstance(e, (ast.List, ast.Tuple)):
        full = False
        partial = False
        for el in e.elts:
            inner = el.value if isinstance(el, ast.Starred) else el
            if isinstance(el, ast.Starred) and _is_args_attr(inner):
                full = True
            elif isinstance(el, ast.Starred) and classify_args_expr(ctx, fn, inner, site, depth - 1)[0] in ("complete", "tail"):
                full = True
            elif any(_is_args_attr(x) for x in ast.walk(inner)):
                partial = True
        if full:
            return "complete", "[*<node>.args, ...]"
        if partial:
            return "partial", f"keeps only a prefix/element of the original arguments: {unparse(e)[:60]}"
        return "dropped", f"new argument list {unparse(e)[:60]} contains none of the original arguments"
    if isinstance(e, (ast.ListComp, ast.GeneratorExp)):
        g = e.generators[0]
        if _is_args_attr(g.iter) and not g.ifs:
            return "complete", "comprehension over all original args"
        if _is_args_attr(g.iter):
            return "partial", "comprehension over the original args with a filter"
    return "unknown", unparse(e)[:40]


def args_sites(ctx, fn: FuncInfo):
    """(site call, args expression) where a call's argument list is replaced."""
    out = []
    for n in walk_no_nested(fn.node):
        if not isinstance(n, ast.Call):
            continue
        la = last_attr(n.func)
        if la == "update_arg_target" and len(n.args) >= 2:
            out.append((n, n.args[1]))
        elif la == "with_changes":
            a = next((k.value for k in n.keywords if k.arg == "args"), None)
            base = n.func.value if isinstance(n.func, ast.Attribute) else None
            # only a rebuilt *existing* call (the hook's node or a node parameter), not a freshly parsed/constructed one
            if a is not None and isinstance(base, ast.Name) and (base.id in fn.params() or base.id in ("updated_node", "original_node", "node")):
                out.append((n, a))
        elif la == "update_call_target":
            a = next((k.value for k in n.keywords if k.arg == "replacement_args"), n.args[3] if len(n.args) > 3 else None)
            if a is not None:
                out.append((n, a))
    return out


def _classify_wrt_param(ctx, fn: FuncInfo, e: ast.expr, param: str, depth: int = 3) -> tuple[str, str]:
    """Like classify_args_expr, but the original argument list is the parameter `param` (hooks like updated_args(original_args))."""
    r = ctx.resolver(fn)
    if depth <= 0:
        return "unknown", unparse(e)[:40]
    if isinstance(e, ast.Name):
        if e.id == param:
            return "complete", param
        vals = [n.value for n in walk_no_nested(fn.node) if isinstance(n, ast.Assign) and any(isinstance(t, ast.Name) and t.id == e.id for t in n.targets)]
        if vals:
            vs = [_classify_wrt_param(ctx, fn, v, param, depth - 1) for v in vals]
            return sorted(vs, key=lambda t: ["complete", "tail", "unknown", "partial", "dropped"].index(t[0]))[-1]
        return "unknown", e.id
    if isinstance(e, ast.Call) and call_name(e) in ("list", "tuple") and e.args:
        return _classify_wrt_param(ctx, fn, e.args[0], param, depth - 1)
    if isinstance(e, ast.Subscript) and isinstance(e.value, ast.Name) and (e.value.id == param or _classify_wrt_param(ctx, fn, e.value, param, depth - 1)[0] == "complete"):
        if isinstance(e.slice, ast.Slice) and e.slice.upper is None and e.slice.lower is None:
            return "complete", unparse(e)
        if isinstance(e.slice, ast.Slice) and e.slice.upper is None:
            return "tail", unparse(e)
        return "partial", f"`{unparse(e)}` keeps only part of the original arguments"
    if isinstance(e, ast.BinOp) and isinstance(e.op, ast.Add):
        a = _classify_wrt_param(ctx, fn, e.left, param, depth - 1)
        b = _classify_wrt_param(ctx, fn, e.right, param, depth - 1)
        if "complete" in (a[0], b[0]) or "tail" in (a[0], b[0]):
            return "complete", f"{a[1]} + {b[1]}"
        return sorted([a, b], key=lambda t: ["complete", "tail", "unknown", "partial", "dropped"].index(t[0]))[-1]
    if isinstance(e, (ast.List, ast.Tuple)):
        full = any(isinstance(el, ast.Starred) and _classify_wrt_param(ctx, fn, el.value, param, depth - 1)[0] in ("complete", "tail") for el in e.elts)
        part = any(param in {n.id for n in ast.walk(el) if isinstance(n, ast.Name)} for el in e.elts)
        if full:
            return "complete", "[*args, ...]"
        return ("partial", f"`{unparse(e)[:60]}` keeps only part of the original arguments") if part else ("dropped", f"`{unparse(e)[:60]}` contains none of the original arguments")
    if isinstance(e, (ast.ListComp, ast.GeneratorExp)):
        g = e.generators[0]
        if isinstance(g.iter, ast.Name) and g.iter.id == param and not g.ifs:
            return "complete", "comprehension over all original args"
    return "unknown", unparse(e)[:40]


def rule_args_preserved(ctx, rep, rule_id: str, families: dict, statement: str, min_instances: int):
    rep.rule(rule_id, statement, min_instances)
    seen = set()
    for tq, tm in families.items():
        for owner, m in tm.all_methods():
            if m.qname in seen:
                continue
            seen.add(m.qname)
            if m.name == "updated_args" and len(m.positional_params()) >= 2:
                param = m.positional_params()[1]
                for rn in walk_no_nested(m.node):
                    if isinstance(rn, ast.Return) and rn.value is not None:
                        verdict, why = _classify_wrt_param(ctx, m, rn.value, param)
                        ok = verdict in ("complete", "tail", "unknown")
                        rep.check(rule_id, tq, m.loc(rn), ok, f"{m.name}:{verdict}",
                                  f"`{unparse(rn)[:60]}`: {why} (arguments after the rewritten one are silently dropped)", verdict=verdict)
            for site, aexpr in args_sites(ctx, m):
                verdict, why = classify_args_expr(ctx, m, aexpr, site)
                arity = None
                bounded = ARITY_BOUNDED.get((m.cls.qname if m.cls else "", m.name))
                if bounded is None and m.name == "on_result_found":
                    from .semgrep_rules import fixed_arity

                    for cm in ctx.registry.codemods:
                        if tq in cm.transformers and cm.detector == "semgrep-rule" and cm.rule_text:
                            try:
                                fa_ = fixed_arity(cm.rule_text)
                            except Exception:
                                fa_ = None
                            if fa_ is not None:
                                bounded = f"the detector rule of {cm.id} reports only calls with exactly {fa_} argument(s)"
                if verdict in ("partial", "dropped"):
                    arity = _arity_fact(ctx, m, site, None)
                ok = verdict in ("complete", "unknown", "tail") or arity is not None or bounded is not None
                rep.check(rule_id, tq, m.loc(site), ok, f"{m.name}:{verdict}",
                          f"`{unparse(site)[:70]}`: {why}; no dominating arity fact shows that nothing else was there "
                          "(further positional/keyword arguments of the original call are silently dropped)",
                          verdict=verdict, how=why[:80], arity_fact=arity or bounded)
