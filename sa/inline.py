"""E12: helper-inlining normal form.

Rules are anchored on interface functions (pipeline `apply`, writer `add_to_file`, `_process_file`, `match_codemods`, ...).
An "extract method" refactoring moves part of such a body into a private helper without changing behaviour; a rule that
only looks at the anchor's own statements would then lose its anchors.  Before any rule runs, every call to a *private
helper* is therefore replaced by the helper's body (parameters substituted, `return e` turned into an assignment of the
result variable, early `return`s turned into if/else nesting).  The original helper functions stay in the program; a helper
whose every call site was inlined is marked `absorbed`.

What is inlined (all conditions are structural, none depends on a particular name in the repository):
  * callee resolves to exactly one repo function (no virtual dispatch), name starts with one underscore (privacy by convention),
    not nested, not a generator/async, decorators at most `staticmethod`, no *args/**kwargs, not recursive;
  * callee is not a method of a libcst visitor/transformer class (those are modelled interprocedurally by sa/hooks.py);
  * its body is structurable: every `return` is in tail position or is an early exit that can be nested into if/else or
    try/else; no `return` inside a loop;
  * the call is a whole statement value, or can be hoisted out of a simple statement / `if` test / `for` iterable;
    single-expression helpers are substituted as expressions anywhere (also inside comprehensions).
Anything else is left as a call.
"""
from __future__ import annotations

import ast
import builtins
import copy
from typing import Optional

from .model import FuncInfo, Program, Resolver, bind_args, walk_no_nested

MAX_ROUNDS = 4
_BUILTINS = set(dir(builtins))


# ------------------------------------------------------------------ eligibility

def _is_visitor_class(prog: Program, cls_q: str) -> bool:
    for c in prog.mro(cls_q):
        if c.startswith("libcst"):
            return True
        if c in prog.classes:
            for b in prog.external_bases(c):
                if b.startswith("libcst") or b.split(".")[-1] in ("CSTTransformer", "CSTVisitor", "ContextAwareTransformer", "ContextAwareVisitor", "VisitorBasedCodemodCommand", "Codemod"):
                    return True
    return False


def _docstring_stripped(body: list[ast.stmt]) -> list[ast.stmt]:
    if body and isinstance(body[0], ast.Expr) and isinstance(body[0].value, ast.Constant) and isinstance(body[0].value.value, str):
        return body[1:]
    return body


PUBLIC_EXPR_HELPERS = False


def eligible_helper(prog: Program, h: FuncInfo, _cache: dict = {}) -> bool:
    key = (id(prog), h.qname)
    if key in _cache:
        return _cache[key]
    ok = _eligible(prog, h)
    _cache[key] = ok
    return ok


def _transplantable_closure(outer: ast.FunctionDef, inner: ast.FunctionDef) -> bool:
    """A closure defined directly in the helper's body (a callback such as the per-file worker handed to executor.map) can move into
    the caller together with the helper's statements when nothing in it clashes with the substitution of the helper's parameters: it
    is a plain top-level `def` of the helper, binds no name the helper also binds or takes as a parameter, and defines nothing nested."""
    if inner not in outer.body or inner.decorator_list:
        return False
    a = inner.args
    own = {x.arg for x in a.posonlyargs + a.args + a.kwonlyargs} | ({a.vararg.arg} if a.vararg else set()) | ({a.kwarg.arg} if a.kwarg else set())
    own |= _assigned_names(inner.body)
    oa = outer.args
    outer_names = {x.arg for x in oa.posonlyargs + oa.args + oa.kwonlyargs} | _assigned_names([st for st in outer.body if st is not inner])
    if own & outer_names:
        return False
    for x in ast.walk(inner):
        if isinstance(x, (ast.FunctionDef, ast.AsyncFunctionDef, ast.ClassDef, ast.Lambda)) and x is not inner:
            return False
        if isinstance(x, (ast.Nonlocal, ast.Global, ast.Yield, ast.YieldFrom, ast.Await)):
            return False
    return True


def _eligible(prog: Program, h: FuncInfo) -> bool:
    n = h.node
    if not isinstance(n, ast.FunctionDef) or h.parent is not None:
        return False
    if n.name.startswith("__") and n.name.endswith("__"):
        return False
    if not n.name.startswith("_"):
        # a public *method* is treated like a private helper only when it is a pure expression helper of a non-visitor class, is not
        # overridden anywhere, and carries no decorator (properties, caches, abstract methods keep their identity)
        body = _docstring_stripped(n.body)
        if h.cls is None or n.decorator_list or not (len(body) == 1 and isinstance(body[0], ast.Return) and body[0].value is not None):
            return False
        if any(n.name in prog.classes[q].methods for q in prog.all_subclasses(h.cls.qname) if q in prog.classes):
            return False
        if any(n.name in c.methods for c in prog.mro_classes(h.cls.qname)[1:]):
            return False
        if not PUBLIC_EXPR_HELPERS:
            return False
    for d in n.decorator_list:
        if not (isinstance(d, ast.Name) and d.id in ("staticmethod", "classmethod")):
            return False
    a = n.args
    if a.vararg or a.kwarg:
        return False
    if h.cls is not None and _is_visitor_class(prog, h.cls.qname):
        return False
    for x in ast.walk(n):
        if isinstance(x, (ast.Yield, ast.YieldFrom, ast.Await, ast.Global, ast.Nonlocal, ast.AsyncFor, ast.AsyncWith)):
            return False
        if isinstance(x, (ast.AsyncFunctionDef, ast.ClassDef)) and x is not n:
            return False
        if isinstance(x, ast.FunctionDef) and x is not n and not _transplantable_closure(n, x):
            return False
        if isinstance(x, ast.Call):
            f = x.func
            if (isinstance(f, ast.Name) and f.id == n.name) or (isinstance(f, ast.Attribute) and f.attr == n.name):
                return False  # (possibly) recursive
            if isinstance(f, ast.Name) and f.id in ("super", "locals", "vars"):
                return False
    return True


# ------------------------------------------------------------------ structuring returns

def _has_return(stmts) -> bool:
    for s in stmts:
        for x in walk_no_nested(s):
            if isinstance(x, ast.Return):
                return True
    return False


def _always_exits(stmts) -> bool:
    """Every path through stmts ends in return/raise (conservative)."""
    for s in stmts:
        if isinstance(s, (ast.Return, ast.Raise)):
            return True
        if isinstance(s, ast.If) and s.orelse and _always_exits(s.body) and _always_exits(s.orelse):
            return True
        if isinstance(s, ast.With) and _always_exits(s.body):
            return True
        if isinstance(s, ast.Try) and not s.finalbody and _always_exits(s.body + s.orelse) and all(_always_exits(h.body) for h in s.handlers):
            return True
        if isinstance(s, ast.Match) and any(isinstance(c.pattern, ast.MatchAs) and c.pattern.pattern is None and c.guard is None for c in s.cases) and all(_always_exits(c.body) for c in s.cases):
            return True
    return False


class NotStructurable(Exception):
    pass


def structure(stmts: list[ast.stmt], res: Optional[str]) -> list[ast.stmt]:
    """Rewrite a helper body (in tail position of the inlined block) so that it contains no `return`."""
    out: list[ast.stmt] = []
    for i, s in enumerate(stmts):
        rest = stmts[i + 1:]
        if isinstance(s, ast.Return):
            if res is not None:
                v = s.value if s.value is not None else ast.Constant(value=None)
                out.append(ast.copy_location(ast.Assign(targets=[ast.Name(id=res, ctx=ast.Store())], value=v), s))
            elif s.value is not None and not isinstance(s.value, (ast.Constant, ast.Name)):
                out.append(ast.copy_location(ast.Expr(value=s.value), s))
            if not out:
                out.append(ast.copy_location(ast.Pass(), s))
            return out  # rest is unreachable
        if isinstance(s, (ast.FunctionDef, ast.AsyncFunctionDef, ast.ClassDef)) or not _has_return([s]):
            out.append(s)  # (a closure's own returns are its own)
            continue
        if isinstance(s, (ast.For, ast.While)):
            # `for ...: ... return e` + rest  ==  `for ...: ... res = e; break` + `else: rest`   (loop without own breaks)
            if _own_breaks(s.body) or _has_return(s.orelse):
                raise NotStructurable("return inside a loop that also breaks")
            s.body = _returns_to_breaks(s.body, res)
            s.orelse = structure(list(s.orelse) + rest, res)
            out.append(s)
            return out
        if isinstance(s, ast.If):
            if not rest:
                s.body = structure(s.body, res)
                s.orelse = structure(s.orelse, res) if s.orelse else ([_assign_none(res, s)] if res else [])
                out.append(s)
                return out
            if _always_exits(s.body):
                s.body = structure(s.body, res)
                s.orelse = structure(list(s.orelse) + rest, res)
                out.append(s)
                return out
            if s.orelse and _always_exits(s.orelse):
                s.orelse = structure(s.orelse, res)
                s.body = structure(list(s.body) + rest, res)
                out.append(s)
                return out
            raise NotStructurable("conditional return on a fall-through branch")
        if isinstance(s, ast.Try):
            body_ret = _has_return(s.body)
            if not rest:
                if s.finalbody and _has_return(s.finalbody):
                    raise NotStructurable("return in finally")
                if body_ret and s.orelse:
                    raise NotStructurable("return in try body with else clause")
                s.body = structure(s.body, res)
                for h in s.handlers:
                    h.body = structure(h.body, res)
                if s.orelse:
                    s.orelse = structure(s.orelse, res)
                out.append(s)
                return out
            if s.finalbody:
                raise NotStructurable("early return in try with finally")
            if body_ret:
                if _always_exits(s.body) and not s.orelse:
                    # try body always returns: the rest can only follow a handler
                    falling = [h for h in s.handlers if not _always_exits(h.body)]
                    if len(falling) != 1:
                        raise NotStructurable("try body returns, several handlers fall through")
                    s.body = structure(s.body, res)
                    for h in s.handlers:
                        h.body = structure(list(h.body) + (rest if h is falling[0] else []), res)
                    out.append(s)
                    return out
                raise NotStructurable("conditional return inside try body")
            # returns only in handlers / else: what follows the try runs when no handler returned
            if all(_always_exits(h.body) or not _has_return(h.body) for h in s.handlers):
                if any(not _always_exits(h.body) for h in s.handlers):
                    raise NotStructurable("handler falls through to statements after try")
                for h in s.handlers:
                    h.body = structure(h.body, res)
                s.orelse = structure(list(s.orelse) + rest, res)
                out.append(s)
                return out
            raise NotStructurable("conditional return in handler")
        if isinstance(s, ast.With):
            if not rest or _always_exits(s.body):
                s.body = structure(s.body, res)
                out.append(s)
                return out
            raise NotStructurable("conditional return inside with")
        if isinstance(s, ast.Match):
            if not rest or all(_always_exits(c.body) or not _has_return(c.body) for c in s.cases) and not rest:
                for c in s.cases:
                    c.body = structure(c.body, res)
                out.append(s)
                return out
            raise NotStructurable("return inside match followed by statements")
        raise NotStructurable(type(s).__name__)
    if res is not None:
        anchor = stmts[-1] if stmts else None
        out.append(_assign_none(res, anchor))
    return out


def _own_breaks(stmts) -> bool:
    """A `break` that belongs to the loop whose body is stmts (not to a nested loop)."""
    for st in stmts:
        if isinstance(st, ast.Break):
            return True
        if isinstance(st, (ast.For, ast.While, ast.AsyncFor, ast.FunctionDef, ast.AsyncFunctionDef, ast.ClassDef)):
            if isinstance(st, (ast.For, ast.While)) and _own_breaks(st.orelse):
                return True
            continue
        for field in ("body", "orelse", "finalbody"):
            sub = getattr(st, field, None)
            if isinstance(sub, list) and sub and isinstance(sub[0], ast.stmt) and _own_breaks(sub):
                return True
        if isinstance(st, ast.Try) and any(_own_breaks(h.body) for h in st.handlers):
            return True
        if isinstance(st, ast.Match) and any(_own_breaks(c.body) for c in st.cases):
            return True
    return False


def _returns_to_breaks(stmts, res):
    out = []
    for st in stmts:
        if isinstance(st, ast.Return):
            if res is not None:
                v = st.value if st.value is not None else ast.Constant(value=None)
                out.append(ast.copy_location(ast.Assign(targets=[ast.Name(id=res, ctx=ast.Store())], value=v), st))
            elif st.value is not None and not isinstance(st.value, (ast.Constant, ast.Name)):
                out.append(ast.copy_location(ast.Expr(value=st.value), st))
            out.append(ast.copy_location(ast.Break(), st))
            return out
        if isinstance(st, (ast.For, ast.While, ast.AsyncFor)):
            if _has_return([st]):
                raise NotStructurable("return inside a nested loop")
            out.append(st)
            continue
        if _has_return([st]):
            for field in ("body", "orelse", "finalbody"):
                sub = getattr(st, field, None)
                if isinstance(sub, list) and sub and isinstance(sub[0], ast.stmt):
                    setattr(st, field, _returns_to_breaks(sub, res))
            if isinstance(st, ast.Try):
                for h in st.handlers:
                    h.body = _returns_to_breaks(h.body, res)
            if isinstance(st, ast.Match):
                for c in st.cases:
                    c.body = _returns_to_breaks(c.body, res)
        out.append(st)
    return out


def _assign_none(res, anchor):
    n = ast.Assign(targets=[ast.Name(id=res, ctx=ast.Store())], value=ast.Constant(value=None))
    return ast.copy_location(n, anchor) if anchor is not None else n


# ------------------------------------------------------------------ substitution

def _simple(e: ast.expr) -> bool:
    if isinstance(e, (ast.Name, ast.Constant)):
        return True
    if isinstance(e, ast.Attribute):
        return _simple(e.value)
    return False


def _assigned_names(body) -> set[str]:
    out = set()
    for s in body:
        for x in ast.walk(s):
            if isinstance(x, ast.Name) and isinstance(x.ctx, (ast.Store, ast.Del)):
                out.add(x.id)
            elif isinstance(x, ast.ExceptHandler) and x.name:
                out.add(x.name)
            elif isinstance(x, (ast.MatchAs, ast.MatchStar)) and x.name:
                out.add(x.name)
        if isinstance(s, ast.FunctionDef):
            out.add(s.name)
    return out


class _Subst(ast.NodeTransformer):
    def __init__(self, exprs: dict[str, ast.expr], renames: dict[str, str]):
        self.exprs, self.renames = exprs, renames

    def visit_Name(self, n):
        if n.id in self.renames:
            return ast.copy_location(ast.Name(id=self.renames[n.id], ctx=n.ctx), n)
        if n.id in self.exprs and isinstance(n.ctx, ast.Load):
            return ast.copy_location(copy.deepcopy(self.exprs[n.id]), n)
        return n

    def visit_FunctionDef(self, n):
        if n.name in self.renames:
            n.name = self.renames[n.name]
        return self.generic_visit(n)

    def visit_ExceptHandler(self, n):
        if n.name and n.name in self.renames:
            n.name = self.renames[n.name]
        return self.generic_visit(n)

    def visit_MatchAs(self, n):
        if n.name and n.name in self.renames:
            n.name = self.renames[n.name]
        return self.generic_visit(n)


def _names_used(node) -> set[str]:
    return {x.id for x in ast.walk(node) if isinstance(x, ast.Name)} | {x.arg for x in ast.walk(node) if isinstance(x, ast.arg)}


# ------------------------------------------------------------------ the inliner

class Inliner:
    def __init__(self, prog: Program):
        self.prog = prog
        self.counter = 0
        self.log: list[tuple[str, str]] = []  # (caller, helper)
        self.kept_calls: set[str] = set()  # helpers with a call site that was not inlined
        self.moved_closures: set[str] = set()  # closures of inlined helpers, re-registered under the caller
        self.only_module_level = False

    # -- which helper does this call reach
    def target(self, r: Resolver, call: ast.Call) -> Optional[FuncInfo]:
        if any(isinstance(a, ast.Starred) for a in call.args) or any(k.arg is None for k in call.keywords):
            return None
        f = call.func
        if isinstance(f, ast.Attribute):
            if not f.attr.startswith("_") and not (PUBLIC_EXPR_HELPERS and isinstance(f.value, ast.Name) and f.value.id == "self"):
                return None
        elif isinstance(f, ast.Name):
            if not f.id.startswith("_"):
                return None
        else:
            return None
        try:
            ts = r.resolve_call(call)
        except Exception:
            return None
        if len(ts) != 1 or not isinstance(ts[0], FuncInfo):
            return None
        h = ts[0]
        if h.qname == r.fn.qname or not eligible_helper(self.prog, h):
            return None
        if self.only_module_level and h.cls is not None:
            return None
        # free globals of the helper must mean the same thing in the caller's module
        if h.module is not r.fn.module:
            local = set(h.params()) | _assigned_names(h.node.body)
            # (parameter / return annotations disappear with the inlining: only the body and the defaults are transplanted)
            transplanted = list(h.node.body) + list(h.node.args.defaults) + [d for d in h.node.args.kw_defaults if d is not None]
            for x in (y for t in transplanted for y in ast.walk(t)):
                if isinstance(x, ast.Name) and isinstance(x.ctx, ast.Load) and x.id not in local and x.id not in _BUILTINS:
                    if self.prog.resolve_dotted(h.module, x.id) != self.prog.resolve_dotted(r.fn.module, x.id):
                        return None
        return h

    def bind(self, r: Resolver, call: ast.Call, h: FuncInfo):
        """-> (exprs to substitute, prelude assignments, renames) or None"""
        static = any(isinstance(d, ast.Name) and d.id == "staticmethod" for d in h.node.decorator_list)
        is_method = h.cls is not None and not static
        recv = None
        if is_method:
            if not isinstance(call.func, ast.Attribute):
                return None
            recv = call.func.value
            is_cm = any(isinstance(d, ast.Name) and d.id == "classmethod" for d in h.node.decorator_list)
            if is_cm:
                # cls._helper(...) from another classmethod of the hierarchy: `cls` stays `cls`
                if not (isinstance(recv, ast.Name) and recv.id == "cls" and r.fn.params()[:1] == ["cls"]):
                    return None
            elif not (isinstance(recv, ast.Name) and recv.id == "self"):
                return None
        b = bind_args(call, h, bound=is_method)
        a = h.node.args
        pos = a.posonlyargs + a.args
        params = [x.arg for x in pos]
        if is_method:
            params = params[1:]
        defaults = {}
        for p, d in zip(pos[len(pos) - len(a.defaults):], a.defaults):
            defaults[p.arg] = d
        for p, d in zip(a.kwonlyargs, a.kw_defaults):
            params.append(p.arg)
            if d is not None:
                defaults[p.arg] = d
        if len(call.args) > len([x for x in pos][1 if is_method else 0:]):
            return None
        if any(k.arg not in params for k in call.keywords):
            return None
        body = _docstring_stripped(h.node.body)
        assigned = _assigned_names(body)
        self.counter += 1
        tag = f"__h{self.counter}"
        caller_names = _names_used(r.fn.node)
        exprs: dict[str, ast.expr] = {}
        renames: dict[str, str] = {}
        prelude: list[ast.stmt] = []
        if is_method:
            self_name = pos[0].arg
            if self_name != (recv.id if isinstance(recv, ast.Name) else "self"):
                exprs[self_name] = recv
        for p in params:
            v = b.get(p, defaults.get(p))
            if v is None:
                return None
            uses = sum(1 for x in ast.walk(h.node) if isinstance(x, ast.Name) and x.id == p and isinstance(x.ctx, ast.Load))
            if p not in assigned and (_simple(v) or uses <= 1 and not _in_loop_or_comp(h.node, p)):
                if not (isinstance(v, ast.Name) and v.id == p):
                    exprs[p] = v
            else:
                new = p if (p not in caller_names or (isinstance(v, ast.Name) and v.id == p)) else p + tag
                if new != p:
                    renames[p] = new
                if not (isinstance(v, ast.Name) and v.id == new):
                    prelude.append(ast.copy_location(ast.Assign(targets=[ast.Name(id=new, ctx=ast.Store())], value=copy.deepcopy(v)), call))
        for nme in assigned:
            if nme in params:
                continue
            if nme in caller_names:
                renames[nme] = nme + tag
        return exprs, prelude, renames, tag

    def expand_stmt_call(self, r: Resolver, call: ast.Call, h: FuncInfo, res: Optional[str]) -> Optional[list[ast.stmt]]:
        bound = self.bind(r, call, h)
        if bound is None:
            return None
        exprs, prelude, renames, tag = bound
        body = copy.deepcopy(_docstring_stripped(h.node.body))
        for s in body:
            for x in ast.walk(s):
                if hasattr(x, "lineno"):
                    x._orig_loc = (h.module.relpath, x.lineno)
        placeholder = f"__result{tag}" if res is not None else None  # keeps the caller's target out of the helper's renames
        try:
            body = structure(body, placeholder)
        except NotStructurable:
            return None
        sub = _Subst(exprs, renames)
        body = [sub.visit(s) for s in body]
        if placeholder is not None:
            back = _Subst({}, {placeholder: res})
            body = [back.visit(s) for s in body]
        closures = [st for st in body if isinstance(st, ast.FunctionDef)]
        if closures:
            if h.module is not r.fn.module:
                return None  # the closure's free names would resolve in another module
            for st in closures:
                fi = FuncInfo(f"{r.fn.qname}.<locals>.{st.name}", r.fn.module, st, r.fn.cls, r.fn)
                self.prog.functions[fi.qname] = fi
                old_q = f"{h.qname}.<locals>.{st.name}"
                self.moved_closures.add(old_q)
        return prelude + body

    def expr_form(self, h: FuncInfo) -> Optional[ast.expr]:
        body = _docstring_stripped(h.node.body)
        if len(body) == 1 and isinstance(body[0], ast.Return) and body[0].value is not None:
            return body[0].value
        return None

    # -- one function
    def run(self, fn: FuncInfo) -> int:
        r = Resolver(self.prog, fn)
        if fn.cls is not None and _is_visitor_class(self.prog, fn.cls.qname):
            # hooks are modelled interprocedurally (sa/hooks.py); only pure module-level expression helpers are substituted
            self.only_module_level = True
            try:
                # purely syntactic normal forms are safe for hook classes too (no helper is moved)
                return _exit_idioms(fn) + _return_temps(fn) + _filter_loops(fn) + _reduce_and_extend_loops(fn) + self._expr_helpers(r, fn)
            finally:
                self.only_module_level = False
        n = _exit_idioms(fn) + _return_temps(fn)
        n += _filter_loops(fn)
        n += _reduce_and_extend_loops(fn)
        n += _callable_choice(fn)
        n += self._block(r, fn, fn.node.body)
        n += self._expr_helpers(r, fn)
        n += _scalarise_records(self.prog, fn)
        return n

    def _expr_helpers(self, r: Resolver, fn: FuncInfo) -> int:
        """Substitute single-expression helpers wherever they are called (also inside comprehensions / lambdas)."""
        count = 0
        inl = self

        class T(ast.NodeTransformer):
            def visit_FunctionDef(self, n):
                return n if n is not fn.node else self.generic_visit(n)

            visit_AsyncFunctionDef = visit_FunctionDef

            def visit_ClassDef(self, n):
                return n

            def visit_Call(self, c):
                nonlocal count
                self.generic_visit(c)
                beta = inl._beta(fn, c)
                if beta is not None:
                    count += 1
                    inl.log.append((fn.qname, "<closure / lambda applied>"))
                    return beta
                h = inl.target(r, c)
                if h is None:
                    return c
                e = inl.expr_form(h)
                if e is None:
                    inl.kept_calls.add(h.qname)
                    return c
                bound = inl.bind(r, c, h)
                if bound is None:
                    inl.kept_calls.add(h.qname)
                    return c
                exprs, prelude, renames, _ = bound
                if prelude:  # would need a statement: not possible in expression position
                    # substitute anyway when each such parameter is used once (evaluation count preserved)
                    for st in prelude:
                        nm = st.targets[0].id
                        orig = next((k for k, v in renames.items() if v == nm), nm)
                        uses = sum(1 for x in ast.walk(e) if isinstance(x, ast.Name) and x.id == orig)
                        if uses > 1:
                            inl.kept_calls.add(h.qname)
                            return c
                        exprs[orig] = st.value
                        renames.pop(orig, None)
                new = _Subst(exprs, renames).visit(copy.deepcopy(e))
                for x in ast.walk(new):
                    if hasattr(x, "lineno"):
                        x._orig_loc = (h.module.relpath, x.lineno)
                ast.copy_location(new, c)
                for x in ast.walk(new):
                    if hasattr(x, "lineno") or isinstance(x, (ast.expr, ast.stmt)):
                        x.lineno, x.col_offset = c.lineno, c.col_offset
                        x.end_lineno, x.end_col_offset = getattr(c, "end_lineno", c.lineno), getattr(c, "end_col_offset", 0)
                count += 1
                inl.log.append((fn.qname, h.qname))
                return new

        T().visit(fn.node)
        return count

    def _beta(self, fn: FuncInfo, c: ast.Call) -> Optional[ast.expr]:
        """`(lambda x: E)(a)` and `g(a)` with `g` a single-expression closure defined (once) in this very function: the body with the
        arguments substituted.  Only plain positional calls, only when every argument is a simple expression or its parameter is used once."""
        if c.keywords or any(isinstance(a, ast.Starred) for a in c.args):
            return None
        params = body = None
        if isinstance(c.func, ast.Lambda):
            la = c.func.args
            if la.vararg or la.kwarg or la.kwonlyargs or la.defaults or la.posonlyargs or len(la.args) != len(c.args):
                return None
            params, body = [a.arg for a in la.args], c.func.body
        elif isinstance(c.func, ast.Name):
            defs = [st for stmts_ in _stmt_lists(fn.node) for st in stmts_ if isinstance(st, ast.FunctionDef) and st.name == c.func.id]
            rebound = any(isinstance(x, ast.Name) and x.id == c.func.id and isinstance(x.ctx, ast.Store) for x in walk_no_nested(fn.node))
            if len(defs) != 1 or rebound or defs[0].decorator_list:
                return None
            d = defs[0]
            a = d.args
            stmts = _docstring_stripped(d.body)
            if a.vararg or a.kwarg or a.kwonlyargs or a.defaults or a.posonlyargs or len(a.args) != len(c.args):
                return None
            if not (len(stmts) == 1 and isinstance(stmts[0], ast.Return) and stmts[0].value is not None):
                return None
            params, body = [x.arg for x in a.args], stmts[0].value
        if params is None:
            return None
        mapping = {}
        for p_, v in zip(params, c.args):
            uses = sum(1 for x in ast.walk(body) if isinstance(x, ast.Name) and x.id == p_)
            if not (_simple(v) or uses <= 1):
                return None
            mapping[p_] = v
        new = _Subst(mapping, {}).visit(copy.deepcopy(body))
        ast.copy_location(new, c)
        for x in ast.walk(new):
            if isinstance(x, (ast.expr, ast.stmt)):
                x.lineno, x.col_offset = c.lineno, c.col_offset
                x.end_lineno, x.end_col_offset = getattr(c, "end_lineno", c.lineno), getattr(c, "end_col_offset", 0)
        return new

    def _block(self, r: Resolver, fn: FuncInfo, stmts: list[ast.stmt]) -> int:
        count = 0
        i = 0
        while i < len(stmts):
            s = stmts[i]
            repl = self._stmt(r, fn, s)
            if repl is not None:
                stmts[i:i + 1] = repl
                count += 1
                # do not rescan the inserted statements in this round (bounded by MAX_ROUNDS at program level)
                i += len(repl)
                continue
            # recurse into compound statements (nested function / class definitions are units of their own)
            if isinstance(s, (ast.FunctionDef, ast.AsyncFunctionDef, ast.ClassDef)):
                i += 1
                continue
            for field in ("body", "orelse", "finalbody"):
                sub = getattr(s, field, None)
                if isinstance(sub, list) and sub and isinstance(sub[0], ast.stmt):
                    count += self._block(r, fn, sub)
            if isinstance(s, ast.Try):
                for h in s.handlers:
                    count += self._block(r, fn, h.body)
            if isinstance(s, ast.Match):
                for c in s.cases:
                    count += self._block(r, fn, c.body)
            i += 1
        return count

    def _stmt(self, r: Resolver, fn: FuncInfo, s: ast.stmt) -> Optional[list[ast.stmt]]:
        """Replacement for statement s if it contains an inlinable helper call in a statement-level position."""
        # whole-value forms
        if isinstance(s, ast.Expr) and isinstance(s.value, ast.Call):
            h = self.target(r, s.value)
            if h is not None and self.expr_form(h) is None:
                body = self.expand_stmt_call(r, s.value, h, None)
                if body is not None:
                    self.log.append((fn.qname, h.qname))
                    return body or [ast.copy_location(ast.Pass(), s)]
                self.kept_calls.add(h.qname)
                return None
        if isinstance(s, ast.Assign) and isinstance(s.value, ast.Call) and len(s.targets) == 1 and isinstance(s.targets[0], ast.Name):
            h = self.target(r, s.value)
            if h is not None and self.expr_form(h) is None:
                body = self.expand_stmt_call(r, s.value, h, s.targets[0].id)
                if body is not None:
                    self.log.append((fn.qname, h.qname))
                    return body
                self.kept_calls.add(h.qname)
                return None
        # `[helper(x) for x in xs]` with a multi-statement helper: written out as the loop it abbreviates, so that the
        # helper can be inlined per iteration
        if isinstance(s, (ast.Return, ast.Assign)) and isinstance(s.value, ast.ListComp) and len(s.value.generators) == 1:
            comp = s.value
            g = comp.generators[0]
            single_target = isinstance(s, ast.Return) or (len(s.targets) == 1 and isinstance(s.targets[0], ast.Name))
            # ...and `[x for x in xs if helper(x)]`: the nested `if`s of the loop form make the helper call hoistable under the earlier conditions
            if single_target and not g.is_async and ((self._first_hoistable(r, comp.elt) is not None and not any(self._first_hoistable(r, c) for c in g.ifs))
                                                     or any(self._first_hoistable(r, c) for c in g.ifs)):
                if isinstance(s, ast.Return):
                    self.counter += 1
                    name = f"collected__h{self.counter}"
                else:
                    name = s.targets[0].id
                init = ast.copy_location(ast.Assign(targets=[ast.Name(id=name, ctx=ast.Store())], value=ast.List(elts=[], ctx=ast.Load())), s)
                app = ast.copy_location(ast.Expr(value=ast.Call(func=ast.Attribute(value=ast.Name(id=name, ctx=ast.Load()), attr="append", ctx=ast.Load()), args=[comp.elt], keywords=[])), s)
                body: list[ast.stmt] = [app]
                for c in reversed(g.ifs):
                    body = [ast.copy_location(ast.If(test=c, body=body, orelse=[]), s)]
                loop = ast.copy_location(ast.For(target=g.target, iter=g.iter, body=body, orelse=[]), s)
                _set_ctx(loop.target, ast.Store())
                out = [init, loop]
                if isinstance(s, ast.Return):
                    out.append(ast.copy_location(ast.Return(value=ast.Name(id=name, ctx=ast.Load())), s))
                for st in out:
                    ast.fix_missing_locations(st)
                self.log.append((fn.qname, "<comprehension written out as loop>"))
                return out
        # `if A and helper(): body` (no else)  ==  `if A: if helper(): body` -- makes the call hoistable under its guard
        if isinstance(s, ast.If) and not s.orelse and isinstance(s.test, ast.BoolOp) and isinstance(s.test.op, ast.And):
            vals = s.test.values
            for k in range(1, len(vals)):
                if self._first_hoistable(r, vals[k]) is not None and self._first_hoistable(r, ast.BoolOp(op=ast.And(), values=vals[:k])) is None:
                    outer = vals[0] if k == 1 else ast.copy_location(ast.BoolOp(op=ast.And(), values=vals[:k]), s.test)
                    inner_t = vals[k] if k == len(vals) - 1 else ast.copy_location(ast.BoolOp(op=ast.And(), values=vals[k:]), s.test)
                    inner = ast.copy_location(ast.If(test=inner_t, body=s.body, orelse=[]), s)
                    s.test = outer
                    s.body = [inner]
                    return None
        # hoistable positions
        holder = None
        if isinstance(s, (ast.Assign, ast.AnnAssign, ast.AugAssign, ast.Return, ast.Expr)):
            holder = s.value
        elif isinstance(s, ast.If):
            holder = s.test
        elif isinstance(s, ast.For):
            holder = s.iter
        elif isinstance(s, ast.With):
            holder = s.items[0].context_expr if s.items else None
        if holder is None:
            return None
        call = self._first_hoistable(r, holder)
        if call is None:
            return None
        h = self.target(r, call)
        self.counter += 1
        tmp = f"{h.name.lstrip('_')}_result__h{self.counter}"
        body = self.expand_stmt_call(r, call, h, tmp)
        if body is None:
            self.kept_calls.add(h.qname)
            return None
        # replace the call node by the temp (in place: mutate the Call into a Name is not possible; rewrite parent)
        class R(ast.NodeTransformer):
            def visit_Call(self_inner, c):
                if c is call:
                    return ast.copy_location(ast.Name(id=tmp, ctx=ast.Load()), c)
                return self_inner.generic_visit(c)

        if isinstance(s, ast.If):
            s.test = R().visit(s.test)
        elif isinstance(s, ast.For):
            s.iter = R().visit(s.iter)
        elif isinstance(s, ast.With):
            s.items[0].context_expr = R().visit(s.items[0].context_expr)
        else:
            s.value = R().visit(s.value)
        self.log.append((fn.qname, h.qname))
        return body + [s]

    def _first_hoistable(self, r: Resolver, e: ast.expr) -> Optional[ast.Call]:
        """First helper call in e that is evaluated unconditionally exactly once and is not a single-expression helper."""
        def walk(x, ok=True):
            if isinstance(x, (ast.Lambda, ast.ListComp, ast.SetComp, ast.DictComp, ast.GeneratorExp)):
                return None
            if isinstance(x, ast.Call) and ok:
                # arguments first (evaluation order), then the call itself
                for ch in list(x.args) + [k.value for k in x.keywords]:
                    got = walk(ch, ok)
                    if got is not None:
                        return got
                h = self.target(r, x)
                if h is not None and self.expr_form(h) is None:
                    return x
                return walk(x.func, ok) if not isinstance(x.func, ast.Name) else None
            if isinstance(x, ast.BoolOp):
                return walk(x.values[0], ok)
            if isinstance(x, ast.IfExp):
                return walk(x.test, ok)
            for ch in ast.iter_child_nodes(x):
                if isinstance(ch, ast.expr):
                    got = walk(ch, ok)
                    if got is not None:
                        return got
            return None

        return walk(e)


def _callable_choice(fn: FuncInfo) -> int:
    """`f = A if C else B` followed by the single use `f(args)`   ==>   `if C: A(args)  else: B(args)`: a callable picked by a
    conditional expression is a branch like any other (the write that happens under the flag is then visible as such)."""
    n = 0

    def uses(stmts, name):
        return [x for st in stmts for x in ast.walk(st) if isinstance(x, ast.Name) and x.id == name]

    def rewrite_block(stmts: list[ast.stmt]) -> None:
        nonlocal n
        i = 0
        while i < len(stmts):
            st = stmts[i]
            for fld in ("body", "orelse", "finalbody"):
                sub = getattr(st, fld, None)
                if isinstance(sub, list) and sub and isinstance(sub[0], ast.stmt) and not isinstance(st, (ast.FunctionDef, ast.AsyncFunctionDef, ast.ClassDef)):
                    rewrite_block(sub)
            for h in getattr(st, "handlers", []) or []:
                rewrite_block(h.body)
            if (isinstance(st, ast.Assign) and len(st.targets) == 1 and isinstance(st.targets[0], ast.Name) and isinstance(st.value, ast.IfExp)
                    and all(isinstance(x, (ast.Name, ast.Attribute)) for x in (st.value.body, st.value.orelse)) and i + 1 < len(stmts)):
                name = st.targets[0].id
                nxt = stmts[i + 1]
                call = None
                if isinstance(nxt, ast.Expr) and isinstance(nxt.value, ast.Call):
                    call = nxt.value
                elif isinstance(nxt, (ast.Return, ast.Assign)) and isinstance(nxt.value, ast.Call):
                    call = nxt.value
                all_uses = uses(fn.node.body, name)
                if call is not None and isinstance(call.func, ast.Name) and call.func.id == name and len(all_uses) == 2 \
                        and not any(isinstance(x, ast.Name) and x.id == name for a in list(call.args) + [k.value for k in call.keywords] for x in ast.walk(a)):
                    def variant(callee):
                        st2 = copy.deepcopy(nxt)
                        c2 = st2.value
                        c2.func = copy.deepcopy(callee)
                        return st2
                    new_if = ast.If(test=st.value.test, body=[variant(st.value.body)], orelse=[variant(st.value.orelse)])
                    ast.copy_location(new_if, st)
                    stmts[i:i + 2] = [new_if]
                    n += 1
                    continue
            i += 1

    rewrite_block(fn.node.body)
    if n:
        ast.fix_missing_locations(fn.node)
    return n


def _filter_loops(fn: FuncInfo) -> int:
    """`for x in filter(F, XS): body`  ==>  `for x in XS: if F(x): body`   (`filter(None, XS)` ==> `if x:`), so that a predicate applied
    through the builtin is a guard like any other; a lambda predicate is applied to the loop variable directly."""
    n = 0
    for st in walk_no_nested(fn.node):
        if not isinstance(st, ast.For) or not isinstance(st.target, ast.Name):
            continue
        it = st.iter
        if not (isinstance(it, ast.Call) and isinstance(it.func, ast.Name) and it.func.id == "filter" and len(it.args) == 2 and not it.keywords):
            continue
        pred, xs = it.args
        var = ast.Name(id=st.target.id, ctx=ast.Load())
        if isinstance(pred, ast.Constant) and pred.value is None:
            test: ast.expr = var
        elif isinstance(pred, ast.Lambda) and len(pred.args.args) == 1 and not (pred.args.vararg or pred.args.kwarg or pred.args.kwonlyargs or pred.args.defaults):
            test = _Subst({pred.args.args[0].arg: var}, {}).visit(copy.deepcopy(pred.body))
        elif isinstance(pred, (ast.Name, ast.Attribute)):
            test = ast.Call(func=copy.deepcopy(pred), args=[var], keywords=[])
        else:
            continue
        guard = ast.If(test=test, body=st.body, orelse=[])
        ast.copy_location(guard, st)
        for x in ast.walk(test):
            ast.copy_location(x, st)
        st.iter = xs
        st.body = [guard]
        n += 1
    return n


def _stmt_lists(node):
    """every list of statements inside a function (its own nested definitions excluded)"""
    out = []

    def rec(stmts):
        out.append(stmts)
        for st in stmts:
            if isinstance(st, (ast.FunctionDef, ast.AsyncFunctionDef, ast.ClassDef)):
                continue
            for field in ("body", "orelse", "finalbody"):
                sub = getattr(st, field, None)
                if isinstance(sub, list) and sub and isinstance(sub[0], ast.stmt):
                    rec(sub)
            if isinstance(st, ast.Try):
                for h in st.handlers:
                    rec(h.body)
            if isinstance(st, ast.Match):
                for c in st.cases:
                    rec(c.body)

    rec(node.body)
    return out


def _exit_idioms(fn: FuncInfo) -> int:
    """`raise SystemExit(E)` is written `sys.exit(E)` (which is defined as exactly that raise); the raise is kept behind it as the
    statement that ends the path, so the control flow is unchanged while rules that enumerate the process exits see one spelling."""
    n = 0
    for stmts in _stmt_lists(fn.node):
        i = 0
        while i < len(stmts):
            st = stmts[i]
            if isinstance(st, ast.Raise) and st.cause is None and isinstance(st.exc, ast.Call) and isinstance(st.exc.func, ast.Name) and st.exc.func.id == "SystemExit" \
                    and len(st.exc.args) <= 1 and not st.exc.keywords and not getattr(st, "_exit_idiom", False):
                call = ast.Expr(value=ast.Call(func=ast.Attribute(value=ast.Name(id="sys", ctx=ast.Load()), attr="exit", ctx=ast.Load()), args=list(st.exc.args), keywords=[]))
                ast.copy_location(call, st)
                ast.fix_missing_locations(call)
                tail = ast.Raise(exc=ast.Name(id="SystemExit", ctx=ast.Load()), cause=None)
                ast.copy_location(tail, st)
                ast.fix_missing_locations(tail)
                tail._exit_idiom = True
                stmts[i:i + 1] = [call, tail]
                n += 1
                i += 2
                continue
            i += 1
    return n


def _return_temps(fn: FuncInfo) -> int:
    """`x = E; return x`  (adjacent, x a plain local)  is written `return E`.

    The two spellings are the same program: nothing can observe x between the binding and the return, and after the return only a
    `finally` block or a closure could read it -- both are excluded.  Rules that classify *what a function returns* on each path then see
    the expression itself, however many branches reuse the same temporary name."""
    node = fn.node
    declared = {nm for x in ast.walk(node) if isinstance(x, (ast.Global, ast.Nonlocal)) for nm in x.names}
    in_finally = {x.id for t in ast.walk(node) if isinstance(t, ast.Try) for st in t.finalbody for x in ast.walk(st) if isinstance(x, ast.Name)}
    in_nested = {x.id for d in ast.walk(node) if d is not node and isinstance(d, (ast.FunctionDef, ast.AsyncFunctionDef, ast.Lambda)) for x in ast.walk(d) if isinstance(x, ast.Name)}
    n = 0
    for stmts in _stmt_lists(node):
        i = 0
        while i + 1 < len(stmts):
            a, b = stmts[i], stmts[i + 1]
            tgt = None
            if isinstance(a, ast.Assign) and len(a.targets) == 1 and isinstance(a.targets[0], ast.Name):
                tgt = a.targets[0].id
            elif isinstance(a, ast.AnnAssign) and a.value is not None and isinstance(a.target, ast.Name):
                tgt = a.target.id
            if tgt and isinstance(b, ast.Return) and isinstance(b.value, ast.Name) and b.value.id == tgt \
                    and tgt not in declared and tgt not in in_finally and tgt not in in_nested:
                b.value = a.value
                del stmts[i]
                n += 1
                continue
            i += 1
    return n


def _reduce_and_extend_loops(fn: FuncInfo) -> int:
    """Two spellings of a loop are written out as the loop:
      `t = reduce(lambda acc, x: E, XS, INIT)`   ==>  `t = INIT` / `for x in XS: t = E[acc := t]`
      `L.extend(E for x in XS if C)`             ==>  `for x in XS: if C: L.append(E)`
    so that a call made per element (`transformer.transform(...)`, `make_new_arg(...)`) and the conditions it is made under are seen
    by the call graph and the flow analysis like in the hand-written loop."""
    n = 0
    for stmts in _stmt_lists(fn.node):
        i = 0
        while i < len(stmts):
            st = stmts[i]
            repl = None
            val = st.value if isinstance(st, (ast.Assign, ast.AnnAssign, ast.Return)) else None
            if isinstance(val, ast.Call) and not val.keywords and len(val.args) == 3 and isinstance(val.args[0], ast.Lambda) \
                    and (isinstance(val.func, ast.Name) and val.func.id == "reduce" or isinstance(val.func, ast.Attribute) and val.func.attr == "reduce"):
                lam, xs, init = val.args
                la = lam.args
                if len(la.args) == 2 and not (la.vararg or la.kwarg or la.kwonlyargs or la.defaults or la.posonlyargs):
                    if isinstance(st, ast.Assign) and len(st.targets) == 1 and isinstance(st.targets[0], ast.Name):
                        tname = st.targets[0].id
                    elif isinstance(st, ast.AnnAssign) and isinstance(st.target, ast.Name):
                        tname = st.target.id
                    elif isinstance(st, ast.Return):
                        tname = f"reduced__n{st.lineno}"
                    else:
                        tname = None
                    if tname is not None and tname not in {x.id for x in ast.walk(lam.body) if isinstance(x, ast.Name)} - {la.args[0].arg}:
                        acc, elem = la.args[0].arg, la.args[1].arg
                        body = _Subst({acc: ast.Name(id=tname, ctx=ast.Load())}, {}).visit(copy.deepcopy(lam.body))
                        first = ast.Assign(targets=[ast.Name(id=tname, ctx=ast.Store())], value=init)
                        step = ast.Assign(targets=[ast.Name(id=tname, ctx=ast.Store())], value=body)
                        loop = ast.For(target=ast.Name(id=elem, ctx=ast.Store()), iter=xs, body=[step], orelse=[])
                        repl = [first, loop] + ([ast.Return(value=ast.Name(id=tname, ctx=ast.Load()))] if isinstance(st, ast.Return) else [])
            # `t = reduce(operator.ior, XS, INIT)`  ==>  `t = INIT` / `for x in XS: t |= x`   (also or_, add, iadd; XS may be map(F, YS))
            elif isinstance(val, ast.Call) and not val.keywords and len(val.args) == 3 and isinstance(val.args[0], (ast.Attribute, ast.Name)) \
                    and (isinstance(val.func, ast.Name) and val.func.id == "reduce" or isinstance(val.func, ast.Attribute) and val.func.attr == "reduce") \
                    and (val.args[0].attr if isinstance(val.args[0], ast.Attribute) else val.args[0].id) in ("ior", "or_", "iadd", "add", "__ior__", "__or__"):
                opname = val.args[0].attr if isinstance(val.args[0], ast.Attribute) else val.args[0].id
                xs, init = val.args[1], val.args[2]
                if isinstance(st, ast.Assign) and len(st.targets) == 1 and isinstance(st.targets[0], ast.Name):
                    tname = st.targets[0].id
                elif isinstance(st, ast.AnnAssign) and isinstance(st.target, ast.Name):
                    tname = st.target.id
                elif isinstance(st, ast.Return):
                    tname = f"reduced__n{st.lineno}"
                else:
                    tname = None
                if tname is not None:
                    elem = f"item__n{st.lineno}"
                    elem_val: ast.expr = ast.Name(id=elem, ctx=ast.Load())
                    loop_iter = xs
                    if isinstance(xs, ast.Call) and isinstance(xs.func, ast.Name) and xs.func.id == "map" and len(xs.args) == 2 and not xs.keywords:
                        loop_iter = xs.args[1]
                        elem_val = ast.Call(func=xs.args[0], args=[ast.Name(id=elem, ctx=ast.Load())], keywords=[])
                    op = ast.BitOr() if "or" in opname else ast.Add()
                    if opname in ("ior", "iadd", "__ior__"):
                        step = ast.AugAssign(target=ast.Name(id=tname, ctx=ast.Store()), op=op, value=elem_val)
                    else:
                        step = ast.Assign(targets=[ast.Name(id=tname, ctx=ast.Store())], value=ast.BinOp(left=ast.Name(id=tname, ctx=ast.Load()), op=op, right=elem_val))
                    first = ast.Assign(targets=[ast.Name(id=tname, ctx=ast.Store())], value=init)
                    loop = ast.For(target=ast.Name(id=elem, ctx=ast.Store()), iter=loop_iter, body=[step], orelse=[])
                    repl = [first, loop] + ([ast.Return(value=ast.Name(id=tname, ctx=ast.Load()))] if isinstance(st, ast.Return) else [])
            elif isinstance(st, ast.Expr) and isinstance(st.value, ast.Call) and isinstance(st.value.func, ast.Attribute) and st.value.func.attr == "extend" \
                    and len(st.value.args) == 1 and not st.value.keywords and isinstance(st.value.args[0], (ast.GeneratorExp, ast.ListComp)) \
                    and len(st.value.args[0].generators) == 1 and not st.value.args[0].generators[0].is_async:
                comp = st.value.args[0]
                g = comp.generators[0]
                app = ast.Expr(value=ast.Call(func=ast.Attribute(value=st.value.func.value, attr="append", ctx=ast.Load()), args=[comp.elt], keywords=[]))
                body: list[ast.stmt] = [app]
                for c in reversed(g.ifs):
                    body = [ast.If(test=c, body=body, orelse=[])]
                tgt = copy.deepcopy(g.target)
                _set_ctx(tgt, ast.Store())
                repl = [ast.For(target=tgt, iter=g.iter, body=body, orelse=[])]
            # `d = {K: V for x in XS if C}`  ==>  `d = {}` / `for x in XS: if C: d[K] = V`   (a later key overwrites an earlier one either way)
            if repl is None and isinstance(st, (ast.Assign, ast.AnnAssign)) and isinstance(st.value, ast.DictComp) and len(st.value.generators) == 1 \
                    and not st.value.generators[0].is_async:
                tgt0 = st.targets[0] if isinstance(st, ast.Assign) and len(st.targets) == 1 else (st.target if isinstance(st, ast.AnnAssign) else None)
                if isinstance(tgt0, ast.Name):
                    comp = st.value
                    g = comp.generators[0]
                    store = ast.Assign(targets=[ast.Subscript(value=ast.Name(id=tgt0.id, ctx=ast.Load()), slice=comp.key, ctx=ast.Store())], value=comp.value)
                    body2: list[ast.stmt] = [store]
                    for c in reversed(g.ifs):
                        body2 = [ast.If(test=c, body=body2, orelse=[])]
                    tgt = copy.deepcopy(g.target)
                    _set_ctx(tgt, ast.Store())
                    if isinstance(st, ast.AnnAssign):
                        init = ast.AnnAssign(target=ast.Name(id=tgt0.id, ctx=ast.Store()), annotation=st.annotation, value=ast.Dict(keys=[], values=[]), simple=1)
                    else:
                        init = ast.Assign(targets=[ast.Name(id=tgt0.id, ctx=ast.Store())], value=ast.Dict(keys=[], values=[]))
                    repl = [init, ast.For(target=tgt, iter=g.iter, body=body2, orelse=[])]
            if repl is not None:
                for r_ in repl:
                    for x in ast.walk(r_):
                        if not hasattr(x, "lineno") or getattr(x, "lineno", None) is None:
                            ast.copy_location(x, st)
                    ast.copy_location(r_, st)
                    ast.fix_missing_locations(r_)
                stmts[i:i + 1] = repl
                n += 1
                i += len(repl)
                continue
            i += 1
    return n


def _record_fields(prog: Program, mod, cls_expr: ast.expr):
    """(field names in order, defaults) of a repository NamedTuple / dataclass named by cls_expr, or None"""
    q = prog.resolve_expr_name(mod, cls_expr) if isinstance(cls_expr, (ast.Name, ast.Attribute)) else None
    ci = prog.classes.get(q) if q else None
    if ci is None:
        return None
    is_nt = any((prog.resolve_expr_name(ci.module, b) or "").endswith("NamedTuple") for b in ci.node.bases if isinstance(b, (ast.Name, ast.Attribute)))
    is_dc = any((d.id if isinstance(d, ast.Name) else getattr(d, "attr", getattr(getattr(d, "func", None), "id", ""))) == "dataclass" for d in ci.node.decorator_list)
    if not (is_nt or is_dc) or len(ci.node.bases) > 1:
        return None
    names, defaults = [], {}
    for st in ci.node.body:
        if isinstance(st, ast.AnnAssign) and isinstance(st.target, ast.Name):
            names.append(st.target.id)
            if st.value is not None:
                if not isinstance(st.value, (ast.Constant, ast.Name, ast.Attribute)):
                    return None
                defaults[st.target.id] = st.value
        elif isinstance(st, (ast.FunctionDef, ast.AsyncFunctionDef)):
            return None  # behaviour beyond plain fields: keep the object
        elif not (isinstance(st, ast.Expr) and isinstance(st.value, ast.Constant)) and not isinstance(st, ast.Pass):
            return None
    return (names, defaults) if names else None


def _scalarise_records(prog: Program, fn: FuncInfo) -> int:
    """A local that only ever holds freshly built records of one repository NamedTuple / dataclass (plain fields, no methods) and is only
    read field by field is replaced by one local per field: `out = Outcome(ok=False)` ... `if not out.ok:` becomes `out__ok = False` ...
    `if not out__ok:`, which the value facts of the flow analysis understand (a status record returned by an inlined helper)."""
    n = 0
    assigns: dict[str, list[ast.Assign]] = {}
    for a in walk_no_nested(fn.node):
        if isinstance(a, ast.Assign) and len(a.targets) == 1 and isinstance(a.targets[0], ast.Name):
            assigns.setdefault(a.targets[0].id, []).append(a)
    params = set(fn.params())
    for name, defs in assigns.items():
        if name in params or not all(isinstance(d.value, ast.Call) and not any(isinstance(x, ast.Starred) for x in d.value.args) and not any(k.arg is None for k in d.value.keywords) for d in defs):
            continue
        ctors = {ast.dump(d.value.func) for d in defs}
        if len(ctors) != 1:
            continue
        rf = _record_fields(prog, fn.module, defs[0].value.func)
        if rf is None:
            continue
        fields, defaults = rf
        # every other occurrence of the name is `name.<field>` read (the stores counted above aside); nested scopes must not see it
        ok = True
        store_ids = {id(d.targets[0]) for d in defs}
        parents = {}
        for p_ in ast.walk(fn.node):
            for c_ in ast.iter_child_nodes(p_):
                parents[id(c_)] = p_
        for x in ast.walk(fn.node):
            if isinstance(x, ast.Name) and x.id == name and id(x) not in store_ids:
                par = parents.get(id(x))
                if not (isinstance(par, ast.Attribute) and par.value is x and par.attr in fields and isinstance(par.ctx, ast.Load)):
                    ok = False
                # inside a nested definition the closure would capture the record
                cur = par
                while cur is not None and cur is not fn.node:
                    if isinstance(cur, (ast.FunctionDef, ast.AsyncFunctionDef, ast.Lambda, ast.ClassDef)):
                        ok = False
                    cur = parents.get(id(cur))
        if not ok:
            continue
        plans = []
        for d in defs:
            vals = dict(zip(fields, d.value.args))
            for k in d.value.keywords:
                vals[k.arg] = k.value
            if len(d.value.args) > len(fields) or any(k not in fields for k in vals) or any(f not in vals and f not in defaults for f in fields):
                ok = False
                break
            plans.append((d, [(f, vals.get(f, defaults.get(f))) for f in fields]))
        if not ok:
            continue
        for stmts in _stmt_lists(fn.node):
            i = 0
            while i < len(stmts):
                hit = next((pl for pl in plans if pl[0] is stmts[i]), None)
                if hit is not None:
                    repl = []
                    for f, v in hit[1]:
                        st = ast.Assign(targets=[ast.Name(id=f"{name}__{f}", ctx=ast.Store())], value=copy.deepcopy(v))
                        ast.copy_location(st, hit[0])
                        ast.fix_missing_locations(st)
                        repl.append(st)
                    stmts[i:i + 1] = repl
                    i += len(repl)
                    continue
                i += 1

        class R(ast.NodeTransformer):
            def visit_Attribute(self, a):
                if isinstance(a.value, ast.Name) and a.value.id == name and a.attr in fields:
                    return ast.copy_location(ast.Name(id=f"{name}__{a.attr}", ctx=a.ctx), a)
                return self.generic_visit(a)

        R().visit(fn.node)
        n += 1
    return n


def _set_ctx(t, ctx):
    if isinstance(t, (ast.Name, ast.Attribute, ast.Subscript, ast.Starred)):
        t.ctx = ctx
    if isinstance(t, (ast.Tuple, ast.List)):
        t.ctx = ctx
        for e in t.elts:
            _set_ctx(e, ctx)
    if isinstance(t, ast.Starred):
        _set_ctx(t.value, ctx)


def _in_loop_or_comp(fn_node, name: str) -> bool:
    for x in ast.walk(fn_node):
        if isinstance(x, (ast.For, ast.While, ast.ListComp, ast.SetComp, ast.DictComp, ast.GeneratorExp, ast.Lambda)):
            for y in ast.walk(x):
                if isinstance(y, ast.Name) and y.id == name and isinstance(y.ctx, ast.Load):
                    return True
    return False


def _renumber(fn: FuncInfo):
    """After inlining: statement order = line order again (several rules compare line numbers); originals kept for reports."""
    rel = fn.module.relpath
    for x in ast.walk(fn.node):
        if hasattr(x, "lineno") and not hasattr(x, "_orig_loc"):
            x._orig_loc = (rel, x.lineno)
    counter = [fn.node.lineno]

    def number_expr(e, line):
        for x in ast.walk(e):
            if isinstance(x, (ast.expr, ast.keyword, ast.arg, ast.withitem, ast.comprehension, ast.pattern, ast.match_case)) or hasattr(x, "lineno"):
                try:
                    x.lineno = line
                    x.end_lineno = line
                except AttributeError:
                    pass

    def number_block(stmts):
        for s in stmts:
            counter[0] += 1
            line = counter[0]
            s.lineno = line
            for field, val in ast.iter_fields(s):
                if field in ("body", "orelse", "finalbody", "handlers", "cases"):
                    continue
                if isinstance(val, ast.AST):
                    number_expr(val, line)
                elif isinstance(val, list):
                    for v in val:
                        if isinstance(v, ast.AST):
                            number_expr(v, line)
            for field in ("body", "orelse", "finalbody"):
                sub = getattr(s, field, None)
                if isinstance(sub, list) and sub and isinstance(sub[0], ast.stmt):
                    number_block(sub)
            if isinstance(s, ast.Try):
                for h in s.handlers:
                    counter[0] += 1
                    h.lineno = counter[0]
                    if h.type is not None:
                        number_expr(h.type, h.lineno)
                    number_block(h.body)
                    h.end_lineno = counter[0]
            if isinstance(s, ast.Match):
                for c in s.cases:
                    counter[0] += 1
                    number_expr(c.pattern, counter[0])
                    if c.guard is not None:
                        number_expr(c.guard, counter[0])
                    number_block(c.body)
            s.end_lineno = counter[0]

    number_block(fn.node.body)
    fn.node.end_lineno = counter[0]


def fold_int_constants(prog: Program) -> int:
    """Named integer constants of the repository (`EXIT_OK = 0` at module level, assigned once, upper-case) are replaced by their
    value wherever they are read, so that `return exit_status.SUCCESS` and `return 0` are the same thing to every rule."""
    table: dict[str, ast.Constant] = {}
    for mod in prog.modules.values():
        counts: dict[str, int] = {}
        for st in mod.tree.body:
            tg = st.targets if isinstance(st, ast.Assign) else ([st.target] if isinstance(st, (ast.AnnAssign, ast.AugAssign)) else [])
            for t in tg:
                if isinstance(t, ast.Name):
                    counts[t.id] = counts.get(t.id, 0) + 1
        for name, val in mod.constants.items():
            if counts.get(name) == 1 and name.isupper() and isinstance(val, ast.Constant) and isinstance(val.value, int) and not isinstance(val.value, bool):
                table[f"{mod.name}.{name}"] = val
            # short one-line string constants too (`CORE_ORIGIN = "pixee"`): `x == CORE_ORIGIN` and `x == "pixee"` are the same test
            elif counts.get(name) == 1 and name.isupper() and isinstance(val, ast.Constant) and isinstance(val.value, str) and len(val.value) <= 40 and "\n" not in val.value:
                table[f"{mod.name}.{name}"] = val
    # upper-case module-level tuples / lists of constants, assigned once: `[*_FIXED_WORDS, "-o", out]` is the list with the words written out
    seq_table: dict[str, list[ast.expr]] = {}
    for mod in prog.modules.values():
        counts2: dict[str, int] = {}
        for st in mod.tree.body:
            tg = st.targets if isinstance(st, ast.Assign) else ([st.target] if isinstance(st, (ast.AnnAssign, ast.AugAssign)) else [])
            for t in tg:
                if isinstance(t, ast.Name):
                    counts2[t.id] = counts2.get(t.id, 0) + 1
        for name, val in mod.constants.items():
            if counts2.get(name) == 1 and name.lstrip("_").isupper() and isinstance(val, (ast.Tuple, ast.List)) and val.elts and all(isinstance(e, ast.Constant) for e in val.elts):
                seq_table[f"{mod.name}.{name}"] = list(val.elts)
    if not table and not seq_table:
        return 0
    n = 0
    for fn in prog.functions.values():
        if fn.parent is not None:
            continue
        local = _assigned_names(fn.node.body) | set(fn.params())
        mod = fn.module

        def _expand_starred(elts):
            nonlocal n
            out = []
            for e in elts:
                if isinstance(e, ast.Starred) and isinstance(e.value, (ast.Name, ast.Attribute)):
                    q = prog.resolve_dotted(mod, e.value.id) if isinstance(e.value, ast.Name) and e.value.id not in local else (prog.resolve_expr_name(mod, e.value) if isinstance(e.value, ast.Attribute) else None)
                    if q in seq_table:
                        n += 1
                        out += [ast.copy_location(ast.Constant(value=c.value), e) for c in seq_table[q]]
                        continue
                out.append(e)
            return out

        class T(ast.NodeTransformer):
            def visit_List(self, x):
                self.generic_visit(x)
                x.elts = _expand_starred(x.elts)
                return x

            def visit_Tuple(self, x):
                self.generic_visit(x)
                if isinstance(x.ctx, ast.Load):
                    x.elts = _expand_starred(x.elts)
                return x

            def visit_Name(self, x):
                nonlocal n
                if isinstance(x.ctx, ast.Load) and x.id not in local and x.id.isupper():
                    q = prog.resolve_dotted(mod, x.id)
                    if q in table:
                        n += 1
                        return ast.copy_location(ast.Constant(value=table[q].value), x)
                return x

            def visit_Attribute(self, x):
                nonlocal n
                if isinstance(x.ctx, ast.Load) and x.attr.isupper():
                    q = prog.resolve_expr_name(mod, x)
                    if q in table:
                        n += 1
                        return ast.copy_location(ast.Constant(value=table[q].value), x)
                return self.generic_visit(x)

        T().visit(fn.node)
    return n


def _positionalise_calls(prog: Program) -> int:
    """`f(path=p, payload=x)` -> `f(p, x)` for calls that resolve to exactly one module-level repo function: keyword arguments that fill the
    next positional parameters in order are written positionally.  Passing an argument by keyword or by position is the same call; rules
    that read `the second argument of update_code / create_diff / match_files ...` then need not care how it was spelt."""
    n = 0
    for fn in list(prog.functions.values()):
        r = None
        for c in walk_no_nested(fn.node):
            if not isinstance(c, ast.Call) or not c.keywords or any(k.arg is None for k in c.keywords) or any(isinstance(a, ast.Starred) for a in c.args):
                continue
            if not isinstance(c.func, (ast.Name, ast.Attribute)):
                continue
            r = r or Resolver(prog, fn)
            try:
                ts = r.resolve_call(c)
            except Exception:
                continue
            if len(ts) != 1 or not isinstance(ts[0], FuncInfo) or ts[0].cls is not None or ts[0].parent is not None:
                continue
            a = ts[0].node.args
            if a.vararg is not None or ts[0].node.decorator_list:
                continue
            pos = [x.arg for x in a.posonlyargs + a.args]
            moved = False
            while len(c.args) < len(pos):
                nxt = pos[len(c.args)]
                k = next((k for k in c.keywords if k.arg == nxt), None)
                if k is None:
                    break
                c.args.append(k.value)
                c.keywords.remove(k)
                moved = True
            n += moved
    return n


def inline_program(prog: Program) -> dict:
    """Bring every non-visitor function into helper-inlined normal form (in place). Returns a summary for evidence."""
    folded = fold_int_constants(prog)
    _positionalise_calls(prog)
    inl = Inliner(prog)
    touched: set[str] = set()
    for _round in range(MAX_ROUNDS):
        n = 0
        for fn in list(prog.functions.values()):
            if fn.parent is not None:
                continue
            k = inl.run(fn)
            if k:
                touched.add(fn.qname)
                n += k
        if n == 0:
            break
    for q in touched:
        ast.fix_missing_locations(prog.functions[q].node)
        _renumber(prog.functions[q])
    inlined_helpers = {h for _, h in inl.log if not h.startswith("<")}
    # a helper stays live while any call or reference to it remains anywhere in the program
    kept: set[str] = set()
    by_name: dict[str, list[str]] = {}
    for h in inlined_helpers:
        by_name.setdefault(h.rsplit(".", 1)[1], []).append(h)
    for fn in prog.functions.values():
        if fn.qname in inlined_helpers and False:
            continue
        for x in ast.walk(fn.node):
            nm = x.attr if isinstance(x, ast.Attribute) else (x.id if isinstance(x, ast.Name) and isinstance(x.ctx, ast.Load) else None)
            if nm in by_name:
                for h in by_name[nm]:
                    if h != fn.qname:
                        kept.add(h)
    absorbed = inlined_helpers - kept
    for q in absorbed:
        prog.functions[q].absorbed = True
    for q in inl.moved_closures:
        owner = q.split(".<locals>.")[0]
        if owner in absorbed and q in prog.functions:
            prog.functions[q].absorbed = True
    return {"inlined_call_sites": len(inl.log), "functions_changed": sorted(touched), "helpers": sorted(inlined_helpers), "absorbed": sorted(absorbed),
            "pairs": sorted({(c, h) for c, h in inl.log if not h.startswith("<")}), "int_constants_folded": folded}
