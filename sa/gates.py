"""Shared gate rule (C06 result gate, C13 line gate) over the transformer model."""
from __future__ import annotations

import ast

from .hooks import Effect, TransformerModel
from .model import unparse, walk_no_nested

# Effects whose gating is indirect in a way the role analysis cannot follow; each entry names one method and states a
# machine-checked witness (a collection that must be gated with the needed roles). If the witness stops holding the
# exemption lapses and the effect is reported.
WITNESSED = {
    ("codemodder.codemods.transformations.remove_unused_imports.RemoveUnusedImportsTransformer", "leave_import_alike"): (
        ("codemodder.codemods.transformations.remove_unused_imports.RemoveUnusedImportsTransformer", "unused_imports"),
        "rebuilds the alias list by dropping exactly the (alias, import) pairs that are members of unused_imports; every "
        "construction site of that set in the family is gated",
    ),
}


def _emptied_by_gated_removal(tm: TransformerModel, e: Effect, need: set[str]) -> str | None:
    """Structural witness: the hook acts only when its updated node has lost its whole body (`not updated_node.body`) -- which can only
    be the work of a removal made by another hook of the same transformer -- and every removal effect of the transformer is gated."""
    ps = e.method.positional_params()
    if len(ps) < 3 or not e.method.name.startswith("leave_"):
        return None
    upd = ps[2]
    fa = tm.flow(e.method)
    must = fa.must_at(e.node)
    if (False, f"{upd}.body") not in must:
        return None
    removals = [x for x in tm.effects() if x.kind == "return-change" and x.method.qname != e.method.qname and ("Remove" in x.text or "REMOVE" in x.text)]
    if not removals or not all(x.roles & need for x in removals):
        return None
    return (f"acts only when `{upd}.body` is empty, i.e. after its child was removed by another hook of this transformer; all "
            f"{len(removals)} removal effects of the class are gated")


def witnessed(tm: TransformerModel, e: Effect, need: set[str]) -> str | None:
    w = WITNESSED.get((e.cls, e.method.name))
    if not w:
        return _emptied_by_gated_removal(tm, e, need)
    key, reason = w
    roles = tm.collection_roles(key)
    if not (roles & need):
        return None
    # the method must really filter by membership in that collection
    # (the membership test may sit in a predicate method of the same class that the hook calls through self)
    prog = tm.prog
    seen: set[str] = set()
    work = [e.method.name]
    uses = False
    while work:
        name = work.pop()
        if name in seen:
            continue
        seen.add(name)
        m = e.method if name == e.method.name else prog.lookup_method(e.cls, name)
        if m is None:
            continue
        for n in walk_no_nested(m.node):
            if isinstance(n, ast.Compare) and isinstance(n.ops[0], (ast.In, ast.NotIn)) and unparse(n.comparators[0]) == f"self.{key[1]}":
                uses = True
            if isinstance(n, ast.Call) and isinstance(n.func, ast.Attribute) and isinstance(n.func.value, ast.Name) and n.func.value.id == "self":
                work.append(n.func.attr)
    return reason if uses else None


def gate_rule(ctx, rep, rule_id: str, need: set[str], codemods, what: str):
    """Every change effect of every transformer of `codemods` is reached only under one of the roles in `need`."""
    seen: set[str] = set()
    n_eff = 0
    for cm in codemods:
        for tq in cm.transformers:
            if tq in seen or tq not in ctx.prog.classes:
                continue
            seen.add(tq)
            if cm.pipeline != "libcst":
                continue
            tm = ctx.tmodel(tq)
            effs = tm.effects()
            users = sorted({c.id for c in codemods if tq in c.transformers})
            if not effs:
                rep.instance(rule_id, tq, ctx.prog.classes[tq].loc(), True, detail="no change effect found in own methods (base-class on_result_found dispatch only)")
            bad: dict[tuple[str, str, str], list[Effect]] = {}
            for e in effs:
                n_eff += 1
                ok = bool(e.roles & need)
                wit = None
                if not ok:
                    wit = witnessed(tm, e, need)
                    ok = wit is not None
                rep.instance(rule_id, tq, e.method.loc(e.node), ok, detail=f"{e.cls.split('.')[-1]}.{e.method.name}:{e.kind}",
                             roles=sorted(e.roles), effect=e.text[:70], witness=wit)
                if not ok:
                    bad.setdefault((e.cls, e.method.name, e.kind), []).append(e)
            for (cls, meth, kind), es in bad.items():
                e0 = es[0]
                rep.violation(
                    rule_id, tq, f"{cls.split('.')[-1]}.{meth}:{kind}", e0.method.loc(e0.node),
                    f"{what}: `{e0.text[:70]}` is reached with gate facts {sorted(e0.roles) or 'none'} "
                    f"(codemods: {', '.join(users[:4])})",
                )
    return n_eff
