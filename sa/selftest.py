"""Self-test of the checker (thorough tier): in-memory overlays of /repo/src, analysed statically.

Seeded faults must make the named rule fire on the mutated construct; benign variants must stay
silent. Nothing is copied to disk and nothing under /repo is executed.  A self-test failure means
the *checker* is wrong -> ANALYSIS-ERROR (exit 2).  A mutant whose anchor text no longer exists in
the tree is reported as 'stale' (the tree moved on) and is not a failure.
"""
from __future__ import annotations

import importlib
import os
from concurrent.futures import ProcessPoolExecutor
from dataclasses import dataclass, field
from pathlib import Path

from .model import REPO, SRC_SUBDIR, AnalysisError


@dataclass
class Mutant:
    prop: str
    name: str
    file: str  # relative to src/
    edits: list[tuple[str, str]]  # (old, new) textual replacements, each must apply exactly once
    expect: str  # 'fire' | 'silent'
    rule: str = ""  # rule expected to fire
    construct: str = ""  # substring expected in the reported construct / detail
    extra_files: dict[str, list[tuple[str, str]]] = field(default_factory=dict)


def _apply(text: str, edits: list[tuple[str, str]]) -> str | None:
    for old, new in edits:
        if text.count(old) != 1:
            return None
        text = text.replace(old, new)
    return text


def build_overlay(m: Mutant) -> dict[str, str] | None:
    overlay = {}
    for f, edits in [(m.file, m.edits)] + list(m.extra_files.items()):
        p = REPO / SRC_SUBDIR / f
        if not p.exists():
            return None
        t = _apply(p.read_text(encoding="utf-8"), edits)
        if t is None:
            return None
        overlay[f] = t
    return overlay


def _run_one(arg) -> dict:
    m, baseline = arg
    from .run import run_property

    overlay = build_overlay(m)
    if overlay is None:
        return {"name": m.name, "status": "stale"}
    try:
        code, rep = run_property(m.prop, "quick", overlay=overlay, quiet=True, write=False)
    except AnalysisError as e:
        # a fail-closed ANALYSIS-ERROR on a seeded fault counts as detection of the fault
        if m.expect == "fire":
            return {"name": m.name, "status": "ok", "how": f"analysis-error: {e}"[:200]}
        return {"name": m.name, "status": "FAILED", "why": f"benign variant raised analysis error: {e}"[:300]}
    _, new = rep.split_known()
    new = [f for f in new if f.key not in baseline]  # only what the variant adds to the unmodified tree
    if m.expect == "silent":
        if new:
            return {"name": m.name, "status": "FAILED", "why": "benign variant reported: " + "; ".join(f.key for f in new)[:300]}
        return {"name": m.name, "status": "ok"}
    hits = [f for f in new if (not m.rule or f.rule == m.rule) and (not m.construct or m.construct in f.construct or m.construct in f.detail)]
    if not hits:
        return {
            "name": m.name,
            "status": "FAILED",
            "why": f"seeded fault not reported by {m.rule or 'any rule'} on {m.construct!r}; got: " + "; ".join(f.key for f in new)[:300],
        }
    return {"name": m.name, "status": "ok", "how": hits[0].key}


def _run_meta(arg) -> dict:
    """metamorphic variant: the whole tree rewritten by a behaviour-preserving transformation must yield exactly the baseline findings"""
    pid, mode, baseline = arg
    from .metamorph import tree_overlay
    from .run import run_property

    name = f"metamorphic:{mode}"
    overlay, stats = tree_overlay(REPO, SRC_SUBDIR, mode)
    try:
        code, rep = run_property(pid, "quick", overlay=overlay, quiet=True, write=False)
    except AnalysisError as e:
        return {"name": name, "status": "FAILED", "why": f"behaviour-preserving rewrite `{mode}` of the tree raised analysis error: {e}"[:300]}
    keys = {f.key for f in rep.findings}
    extra, lost = sorted(keys - baseline), sorted(baseline - keys)
    if extra or lost:
        return {"name": name, "status": "FAILED",
                "why": (f"behaviour-preserving rewrite `{mode}` changes the findings: " + ("new " + "; ".join(extra) if extra else "") + (" lost " + "; ".join(lost) if lost else ""))[:400]}
    return {"name": name, "status": "ok", "how": f"{stats['files']} files rewritten, {stats['rewrites']} rewrites, findings identical ({len(keys)})"}


def mutants_for(pid: str) -> list[Mutant]:
    mod = importlib.import_module("sa.mutants")
    return [m for m in mod.MUTANTS if m.prop == pid]


def run_for(pid: str, quiet: bool = False, baseline_keys=()) -> dict:
    from .metamorph import MODES

    ms = mutants_for(pid)
    base = frozenset(baseline_keys)
    with ProcessPoolExecutor(max_workers=16) as ex:
        meta_f = [ex.submit(_run_meta, (pid, mode, base)) for mode in MODES]
        results = list(ex.map(_run_one, [(m, base) for m in ms]))
        meta = [f.result() for f in meta_f]
    failed = [r for r in results + meta if r["status"] == "FAILED"]
    summary = {
        "variants": len(ms),
        "metamorphic": meta,
        "seeded_faults": sum(1 for m in ms if m.expect == "fire"),
        "benign_variants": sum(1 for m in ms if m.expect == "silent"),
        "ok": sum(1 for r in results if r["status"] == "ok"),
        "stale": [r["name"] for r in results if r["status"] == "stale"],
        "failed": failed,
        "results": results,
    }
    if not quiet:
        print(f"[{pid}] self-test: {summary['ok']}/{len(ms)} variants behave as expected, {len(summary['stale'])} stale, {len(failed)} failed; "
              f"metamorphic: {sum(1 for r in meta if r['status'] == 'ok')}/{len(meta)} whole-tree rewrites leave the findings unchanged")
    if failed:
        raise AnalysisError(f"checker self-test failed for {pid}: " + "; ".join(f"{r['name']}: {r['why']}" for r in failed))
    return summary
