"""Shared, lazily built analysis context for one run (Program, call graph, registry)."""
from __future__ import annotations

import ast
from functools import cached_property

from .model import CallGraph, FuncInfo, Program, Resolver


class Ctx:
    def __init__(self, overlay: dict[str, str] | None = None):
        self.prog = Program(overlay)
        self._resolvers: dict[str, Resolver] = {}
        self._flows: dict = {}
        self._parents: dict = {}
        self._tmodels: dict = {}

    @cached_property
    def cg(self) -> CallGraph:
        return CallGraph(self.prog)

    @cached_property
    def registry(self):
        from .registry import build_registry

        return build_registry(self)

    def resolver(self, fn: FuncInfo) -> Resolver:
        r = self._resolvers.get(fn.qname)
        if r is None:
            r = self._resolvers[fn.qname] = Resolver(self.prog, fn)
        return r

    def flow(self, fn: FuncInfo):
        """Plain facts analysis (no events) of a function, cached."""
        from .flow import FlowAnalysis

        fa = self._flows.get(fn.qname)
        if fa is None:
            fa = self._flows[fn.qname] = FlowAnalysis(fn.node)
        return fa

    def tmodel(self, cls_q: str):
        from .hooks import TransformerModel

        tm = self._tmodels.get(cls_q)
        if tm is None:
            tm = self._tmodels[cls_q] = TransformerModel(self, cls_q)
        return tm

    def parents(self, fn: FuncInfo) -> dict[int, ast.AST]:
        pm = self._parents.get(fn.qname)
        if pm is None:
            pm = {}
            for n in ast.walk(fn.node):
                for c in ast.iter_child_nodes(n):
                    pm[id(c)] = n
            self._parents[fn.qname] = pm
        return pm

    def units(self) -> dict:
        u = dict(self.prog.stats())
        if "cg" in self.__dict__:
            u["call_sites"] = self.cg.n_calls
            u["call_sites_resolved"] = self.cg.n_resolved
            u["call_edges"] = sum(len(v) for v in self.cg.edges.values())
        return u
