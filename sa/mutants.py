"""Seeded faults and benign variants used by the thorough-tier self-test (in-memory overlays)."""
from .selftest import Mutant as M

MUTANTS: list[M] = []


def add(*a, **k):
    MUTANTS.append(M(*a, **k))


# --------------------------------------------------------------------------- C04
LT = "codemodder/codemods/libcst_transformer.py"
RT = "codemodder/codemods/regex_transformer.py"
XT = "codemodder/codemods/xml_transformer.py"
CTXF = "codemodder/context.py"
PYW = "codemodder/dependency_management/pyproject_writer.py"
REQW = "codemodder/dependency_management/requirements_txt_writer.py"
CFGW = "codemodder/dependency_management/setupcfg_writer.py"
SPW = "codemodder/dependency_management/setup_py_writer.py"
DM = "codemodder/dependency_management/dependency_manager.py"
BDW = "codemodder/dependency_management/base_dependency_writer.py"

add("C04", "libcst-guard-removed", LT,
    [("        if not context.dry_run:\n            with file_context.timer.measure(\"write\"):\n                update_code(file_context.file_path, tree.code)",
      "        with file_context.timer.measure(\"write\"):\n            update_code(file_context.file_path, tree.code)")],
    "fire", "R-DRYRUN-GUARD", "update_code")
add("C04", "regex-guard-inverted", RT,
    [("        if not context.dry_run:\n            file_context.file_path.write_bytes", "        if context.dry_run:\n            file_context.file_path.write_bytes")],
    "fire", "R-DRYRUN-GUARD", "RegexTransformerPipeline.apply")
add("C04", "pyproject-guard-removed", PYW,
    [("        if not dry_run:\n            with open(self.path, \"w\", encoding=\"utf-8\", newline=\"\") as f:\n                tomlkit.dump(pyproject, f)",
      "        with open(self.path, \"w\", encoding=\"utf-8\", newline=\"\") as f:\n            tomlkit.dump(pyproject, f)")],
    "fire", "R-DRYRUN-GUARD", "PyprojectWriter.add_to_file")
add("C04", "context-drops-dry-arg", CTXF,
    [("dm.write(list(dependencies), self.dry_run)", "dm.write(list(dependencies))")],
    "fire", "R-DRYRUN-THREAD", "process_dependencies")
add("C04", "manager-passes-constant", DM,
    [("                return PyprojectWriter(\n                    self.dependencies_store, self.parent_directory\n                ).write(dependencies, dry_run)",
      "                return PyprojectWriter(\n                    self.dependencies_store, self.parent_directory\n                ).write(dependencies, False)")],
    "fire", "R-DRYRUN-THREAD", "DependencyManager.write")
add("C04", "writer-base-drops-arg", BDW,
    [("return self.add_to_file(new_dependencies, dry_run)", "return self.add_to_file(new_dependencies)")],
    "fire", "R-DRYRUN-THREAD", "DependencyWriter.write")
add("C04", "dry-run-early-return", XT,
    [("            if not changes:\n                return None\n", "            if not changes or context.dry_run:\n                return None\n")],
    "fire", "R-DRYRUN-ONLY-WRITES", "XMLTransformerPipeline.apply")
add("C04", "dry-run-skips-changes", REQW,
    [("        if not dry_run:\n            try:", "        if not dry_run:\n            original_lines = lines\n            try:")],
    "fire", "R-DRYRUN-ONLY-WRITES", "RequirementsTxtWriter.add_to_file")
add("C04", "new-unguarded-backup-write", CFGW,
    [("        if not dry_run:\n            try:\n                with open(self.path, \"w\"", "        self.path.with_suffix(\".bak\").write_text(\"\".join(original_lines))\n        if not dry_run:\n            try:\n                with open(self.path, \"w\"")],
    "fire", "R-DRYRUN-GUARD", "SetupCfgWriter.add_to_file")
# benign: early-return form of the same guard; alias local
add("C04", "benign-early-return-guard", RT,
    [("        if not context.dry_run:\n            file_context.file_path.write_bytes(\"\".join(updated_lines).encode(\"utf-8\"))\n\n        return ChangeSet(",
      "        change_set = ChangeSet(")
     , ("            changes=changes,\n        )\n\n\nclass SastRegex", "            changes=changes,\n        )\n        if not context.dry_run:\n            file_context.file_path.write_bytes(\"\".join(updated_lines).encode(\"utf-8\"))\n        return change_set\n\n\nclass SastRegex")],
    "silent")
add("C04", "benign-helper-extraction", SPW,
    [("        if not dry_run:\n            with open(self.path, \"w\", encoding=\"utf-8\", newline=\"\") as f:\n                f.write(output_tree.code)\n",
      "        if not dry_run:\n            self._store(output_tree.code)\n"),
     ("    def _parse_file(self):\n",
      "    def _store(self, code):\n        with open(self.path, \"w\", encoding=\"utf-8\", newline=\"\") as f:\n            f.write(code)\n\n    def _parse_file(self):\n")],
    "silent")

# --------------------------------------------------------------------------- C03
add("C03", "libcst-writes-source-tree", LT,
    [("update_code(file_context.file_path, tree.code)", "update_code(file_context.file_path, source_tree.code)")],
    "fire", "R-DIFF-WRITE-AGREE", "LibcstTransformerPipeline.apply")
add("C03", "regex-diff-against-other-lines", RT,
    [("        diff = create_diff(original_lines, updated_lines)", "        diff = create_diff(original_lines, [l.rstrip() + \"\\n\" for l in updated_lines])")],
    "fire", "R-DIFF-WRITE-AGREE", "RegexTransformerPipeline.apply")
add("C03", "requirements-writes-unnormalised", REQW,
    [("                    f.writelines(updated_lines)", "                    f.writelines(lines + requirement_lines)")],
    "fire", "R-DIFF-WRITE-AGREE", "RequirementsTxtWriter.add_to_file")
add("C03", "libcst-write-before-empty-diff-check", LT,
    [("        if not (diff := create_diff_from_tree(source_tree, tree)):\n            logger.debug(\"No code diff produced for %s\", file_path)\n            return None\n",
      "        if not context.dry_run:\n            update_code(file_context.file_path, tree.code)\n        if not (diff := create_diff_from_tree(source_tree, tree)):\n            logger.debug(\"No code diff produced for %s\", file_path)\n            return None\n")],
    "fire", "R-CHANGESET-IFF-WRITE", "LibcstTransformerPipeline.apply")
add("C03", "xml-changeset-without-write-on-some-path", XT,
    [("            if not context.dry_run:\n                file_context.file_path.write_bytes", "            if not context.dry_run and len(new_lines) > 1:\n                file_context.file_path.write_bytes")],
    "fire", "R-CHANGESET-IFF-WRITE", "XMLTransformerPipeline.apply")
add("C03", "libcst-drops-empty-diff-test", LT,
    [("        if not (diff := create_diff_from_tree(source_tree, tree)):\n            logger.debug(\"No code diff produced for %s\", file_path)\n            return None\n",
      "        diff = create_diff_from_tree(source_tree, tree)\n")],
    "fire", "R-EMPTY-DIFF-NO-CHANGESET", "LibcstTransformerPipeline.apply")
add("C03", "libcst-drops-no-changes-test", LT,
    [("        if not file_context.codemod_changes:\n            logger.debug(\"No changes produced for %s\", file_path)\n            return None\n", "")],
    "fire", "R-EMPTY-DIFF-NO-CHANGESET", "LibcstTransformerPipeline.apply")
add("C03", "regex-text-mode-write", RT,
    [("file_context.file_path.write_bytes(\"\".join(updated_lines).encode(\"utf-8\"))", "file_context.file_path.write_text(\"\".join(updated_lines))")],
    "fire", "R-NEWLINE-LOSSLESS", "RegexTransformerPipeline.apply")
add("C03", "libcst-cached-read", LT,
    [("                source_tree = cst.parse_module(file_path.read_bytes().decode(\"utf-8\"))", "                source_tree = _parse(file_path)"),
     ("def update_code(file_path, new_code):", "import functools\n\n\n@functools.cache\ndef _parse(file_path):\n    return cst.parse_module(file_path.read_bytes().decode(\"utf-8\"))\n\n\ndef update_code(file_path, new_code):")],
    "fire", "", "LibcstTransformerPipeline.apply")
add("C03", "benign-rename-locals", RT,
    [("        changes, updated_lines = self._apply(original_lines, file_context, results)", "        changes, new_lines = self._apply(original_lines, file_context, results)"),
     ("        diff = create_diff(original_lines, updated_lines)", "        diff = create_diff(original_lines, new_lines)"),
     ("file_context.file_path.write_bytes(\"\".join(updated_lines).encode(\"utf-8\"))", "file_context.file_path.write_bytes(\"\".join(new_lines).encode(\"utf-8\"))")],
    "silent")

# --------------------------------------------------------------------------- C10
BC = "codemodder/codemods/base_codemod.py"
FC = "codemodder/file_context.py"
CM = "codemodder/codemodder.py"
add("C10", "libcst-parse-outside-try", LT,
    [("        try:\n            with file_context.timer.measure(\"parse\"):\n                source_tree = cst.parse_module(file_path.read_bytes().decode(\"utf-8\"))\n        except Exception:\n            file_context.add_failure(file_path, reason := \"Failed to parse file\")\n            logger.exception(\"%s %s\", reason, file_path)\n            return None\n",
      "        with file_context.timer.measure(\"parse\"):\n            source_tree = cst.parse_module(file_path.read_bytes().decode(\"utf-8\"))\n")],
    "fire", "R-FAIL-ISOLATED", "LibcstTransformerPipeline.apply")
add("C10", "libcst-handler-narrowed", LT,
    [("        except Exception:\n            file_context.add_failure(file_path, reason := \"Failed to transform file\")", "        except ValueError:\n            file_context.add_failure(file_path, reason := \"Failed to transform file\")")],
    "fire", "R-FAIL-ISOLATED", "LibcstTransformerPipeline.apply")
add("C10", "handler-forgets-add_failure", LT,
    [("            file_context.add_failure(file_path, reason := \"Failed to parse file\")\n            logger.exception(\"%s %s\", reason, file_path)", "            logger.exception(\"%s %s\", \"Failed to parse file\", file_path)")],
    "fire", "R-FAIL-ISOLATED", "LibcstTransformerPipeline.apply")
add("C10", "add_failure-skips-unfixed", FC,
    [("        self.failures.append(filename)\n        self.add_unfixed_findings(self.get_all_findings(), reason, 0)", "        self.failures.append(filename)\n        if self.line_include:\n            self.add_unfixed_findings(self.get_all_findings(), reason, 0)")],
    "fire", "R-FAILURE-UNFIXED", "add_failure")
add("C10", "process_results-skips-failures-when-changed", CTXF,
    [("            self.add_failures(codemod_id, file_context.failures)", "            if not file_context.changesets:\n                self.add_failures(codemod_id, file_context.failures)")],
    "fire", "R-FAILURE-UNFIXED", "process_results")
add("C10", "xml-failure-returns-changeset", XT,
    [("                logger.exception(\"%s %s\", reason, file_path)\n                return None\n\n            if not changes:", "                logger.exception(\"%s %s\", reason, file_path)\n                return ChangeSet(path=str(file_context.file_path), diff=\"\", changes=[])\n\n            if not changes:")],
    "fire", "", "XMLTransformerPipeline.apply")
add("C10", "run-returns-1-on-failures", CM,
    [("    log_report(\n        context,\n        argv,\n        elapsed_ms,\n        [] if not codemods_to_run else context.files_to_analyze,\n    )\n    return 0", "    log_report(\n        context,\n        argv,\n        elapsed_ms,\n        [] if not codemods_to_run else context.files_to_analyze,\n    )\n    if context.get_failed_files():\n        return 1\n    return 0")],
    "fire", "R-ZERO-AFTER-REPORT", "run")

# --------------------------------------------------------------------------- C20
CLI = "codemodder/cli.py"
CTF = "codemodder/codetf.py"
add("C20", "report-status-dropped-again", CM,
    [("        if codetf.write_report(argv.output) == 2:\n            # the report could not be written: exit status 2 (according to spec)\n            return 2\n", "        codetf.write_report(argv.output)\n")],
    "fire", "R-STATUS-USED", "run")
add("C20", "duplicate-tool-exits-3", CM,
    [("    except (DuplicateToolError, FileNotFoundError) as err:\n        logger.error(err)\n        return 1", "    except (DuplicateToolError, FileNotFoundError) as err:\n        logger.error(err)\n        return 3")],
    "fire", "R-STATUS-MAP", "run")
add("C20", "cli-error-exits-2", CLI,
    [("        logger.error(\"CLI error: %s\", message)\n        sys.exit(3)", "        logger.error(\"CLI error: %s\", message)\n        sys.exit(2)")],
    "fire", "R-STATUS-MAP", "error")
add("C20", "plain-argparse-parser", CLI,
    [("    parser = ArgumentParser(description=\"Run codemods and change code.\")", "    parser = argparse.ArgumentParser(description=\"Run codemods and change code.\")")],
    "fire", "R-STATUS-MAP", "parse_args")
add("C20", "list-exits-nonzero", CLI,
    [("            self._print_codemods()\n            parser.exit()", "            self._print_codemods()\n            parser.exit(1)")],
    "fire", "R-STATUS-MAP", "ListAction")
add("C20", "missing-dir-exits-2", CM,
    [("            argv.directory,\n        )\n        return 1", "            argv.directory,\n        )\n        return 2")],
    "fire", "R-STATUS-MAP", "run")
add("C20", "benign-status-variable", CM,
    [("        if codetf.write_report(argv.output) == 2:\n            # the report could not be written: exit status 2 (according to spec)\n            return 2\n", "        report_status = codetf.write_report(argv.output)\n        if report_status != 0:\n            return report_status\n")],
    "silent")

# --------------------------------------------------------------------------- C12
RES = "codemodder/result.py"
SAPI = "core_codemods/sonar/api.py"
SRES = "core_codemods/sonar/results.py"
add("C12", "ior-removed", RES,
    [("    def __ior__(self, other):\n        # dict.__ior__ is a plain update: merge per rule and file instead\n        for k, v in other.items():\n            self[k] = list_dict_or(self.get(k, {}), v)\n        return self\n", "")],
    "fire", "R-MERGE-OP", "")
add("C12", "ior-plain-update", RES,
    [("        for k, v in other.items():\n            self[k] = list_dict_or(self.get(k, {}), v)\n        return self", "        self.update(other)\n        return self")],
    "fire", "R-MERGE-OP", "")
add("C12", "partial-lookup-back", RES,
    [("            result[k] = list_dict_or(self.get(k, {}), other.get(k, {}))", "            result[k] = list_dict_or(self[k], other[k])")],
    "fire", "R-TOTAL-LOOKUP", "__or__")
add("C12", "hotspots-precedence-back", SRES,
    [("(data.get(\"issues\") or []) + (data.get(\"hotspots\") or [])", "data.get(\"issues\") or [] + data.get(\"hotspots\") or []")],
    "fire", "R-OR-PRECEDENCE", "from_json")
add("C12", "benign-sonar-keyword-order", SRES,
    [("            finding_id=finding_id,\n            rule_id=rule_id,\n            locations=locations,\n            codeflows=all_flows,\n", "            rule_id=rule_id,\n            finding_id=finding_id,\n            codeflows=all_flows,\n            locations=locations,\n")],
    "silent")
add("C12", "semgrep-location-swapped", "codemodder/semgrep.py",
    [("            line=sarif_location[\"physicalLocation\"][\"region\"][\"endLine\"],\n            column=sarif_location[\"physicalLocation\"][\"region\"][\"endColumn\"],", "            line=sarif_location[\"physicalLocation\"][\"region\"][\"startLine\"],\n            column=sarif_location[\"physicalLocation\"][\"region\"][\"endColumn\"],")],
    "fire", "R-READER-SHAPE", "SemgrepLocation")
add("C12", "defectdojo-drops-finding-id", "core_codemods/defectdojo/results.py",
    [("            finding_id=result[\"id\"],\n", "")],
    "fire", "R-READER-SHAPE", "DefectDojoResult")
add("C12", "add_result-first-location-only", RES,
    [("        for loc in result.locations:\n            self.setdefault(result.rule_id, {}).setdefault(loc.file, []).append(result)", "        for loc in result.locations:\n            self.setdefault(result.rule_id, {}).setdefault(loc.file, []).append(result)\n            break")],
    "fire", "R-ADD-ALL-LOCATIONS", "add_result")

# --------------------------------------------------------------------------- C17
REG = "codemodder/registry.py"
add("C17", "include-appends-again", REG,
    [("                matched_codemods.setdefault(name, self._codemods_by_id[name])", "                matched_codemods[name + str(len(matched_codemods))] = self._codemods_by_id[name]")],
    "fire", "R-SELECT-UNIQUE", "match_codemods")
add("C17", "wildcard-match-not-full", REG,
    [("                    code for code in self.codemods if pat.fullmatch(code.id)", "                    code for code in self.codemods if pat.match(code.id)")],
    "fire", "R-GLOB-ANCHORED", "match_codemods")
add("C17", "wildcard-unescaped", REG,
    [("    return re.compile(\".*\".join(re.escape(part) for part in pattern.split(\"*\")))", "    return re.compile(pattern.replace(\"*\", \".*\"))")],
    "fire", "R-GLOB-ANCHORED", "match_codemods")
add("C17", "include-sorted", REG,
    [("        for name in codemod_include:\n            if \"*\" in name:", "        for name in sorted(codemod_include):\n            if \"*\" in name:")],
    "fire", "R-ORDER-PRESERVED", "match_codemods")
add("C17", "registry-set-again", REG,
    [("    for entry_point in dict.fromkeys(entry_points().select(group=\"codemods\")):", "    for entry_point in set(entry_points().select(group=\"codemods\")):")],
    "fire", "R-REGISTRY-ORDER", "load_registered_codemods")
add("C17", "compile-results-other-list", CM,
    [("            context.compile_results(codemods_to_run),", "            context.compile_results(codemod_registry.codemods),")],
    "fire", "R-ORDER-PRESERVED", "run")
add("C17", "cli-not-exclusive", CLI,
    [("    codemod_args_group.add_argument(\n        \"--codemod-include\",", "    parser.add_argument(\n        \"--codemod-include\",")],
    "fire", "R-CLI-EXCLUSIVE", "parse_args")
add("C17", "benign-fnmatch", REG,
    [("                pat = _wildcard_to_regex(name)\n                pattern_matches = [\n                    code for code in self.codemods if pat.fullmatch(code.id)\n                ]", "                pattern_matches = [\n                    code for code in self.codemods if fnmatch.fnmatchcase(code.id, name)\n                ]"),
     ("import os\nimport re\n", "import fnmatch\nimport os\nimport re\n")],
    "silent")

# --------------------------------------------------------------------------- C19
add("C19", "regex-finding-line-off", RT,
    [("                        findings=file_context.get_findings_for_location(lineno + 1),\n                    )\n                )\n        return changes, updated_lines\n\n    def apply(", "                        findings=file_context.get_findings_for_location(lineno),\n                    )\n                )\n        return changes, updated_lines\n\n    def apply(")],
    "fire", "R-LINE-INDEX-AGREE", "RegexTransformerPipeline._apply")
add("C19", "sast-regex-drops-unchanged-line", RT,
    [("                if line == changed_line:\n                    logger.warn(\"Unable to update html line: %s\", line)", "                if line == changed_line:\n                    updated_lines.pop()\n                    logger.warn(\"Unable to update html line: %s\", line)")],
    "fire", "R-ONE-APPEND-PER-LINE", "SastRegexTransformerPipeline._apply")
add("C19", "sast-regex-double-append", RT,
    [("            else:\n                updated_lines.append(line)\n        return changes, updated_lines", "            else:\n                updated_lines.append(line)\n            if not line.endswith(\"\\n\"):\n                updated_lines.append(\"\\n\")\n        return changes, updated_lines")],
    "fire", "R-ONE-APPEND-PER-LINE", "SastRegexTransformerPipeline._apply")
add("C19", "sast-regex-ungated", RT,
    [("            if self.line_matches_result(one_idx_lineno := lineno + 1, result_linenums):", "            if self.line_matches_result(one_idx_lineno := lineno + 1, result_linenums) or True:")],
    "fire", "R-ONE-APPEND-PER-LINE", "SastRegexTransformerPipeline._apply")
add("C19", "cdata-flag-never-cleared", XT,
    [("    def endCDATA(self):\n        self._in_cdata = False\n", "    def endCDATA(self):\n")],
    "fire", "R-CDATA-STATE", "characters")
add("C19", "dtd-none-again", XT,
    [("        if public_id is not None and system_id is not None:\n            external_id = f' PUBLIC \"{public_id}\" \"{system_id}\"'\n        elif system_id is not None:\n            external_id = f' SYSTEM \"{system_id}\"'\n        else:\n            external_id = \"\"\n        self._write(f\"<!DOCTYPE {name}{external_id}>\\n\")  # type: ignore",
      "        self._write(f'<!DOCTYPE {name} PUBLIC \"{public_id}\" \"{system_id}\">\\n')  # type: ignore")],
    "fire", "R-OPTIONAL-FORMAT", "startDTD")
add("C19", "xml-dry-run-guard-removed", XT,
    [("            if not context.dry_run:\n                file_context.file_path.write_bytes(\"\".join(new_lines).encode(\"utf-8\"))", "            file_context.file_path.write_bytes(\"\".join(new_lines).encode(\"utf-8\"))")],
    "fire", "", "XMLTransformerPipeline.apply")

# --------------------------------------------------------------------------- C05
CD = "codemodder/code_directory.py"
BP = "codemodder/project_analysis/file_parsers/base_parser.py"
add("C05", "find-and-fix-returns-all-files", BC,
    [("                for path in context.find_and_fix_paths\n                if path.suffix in self.default_extensions", "                for path in context.files_to_analyze\n                if path.suffix in self.default_extensions")],
    "fire", "R-FILESET-SOURCE", "FindAndFixCodemod.get_files_to_analyze")
add("C05", "remediation-skips-filter_paths", BC,
    [("        return context.filter_paths(\n            [", "        return list(\n            ["),],
    "fire", "R-FILESET-SOURCE", "RemediationCodemod.get_files_to_analyze")
add("C05", "context-swaps-include-exclude", CTXF,
    [("            self.path_exclude or None,\n            self.path_include or None,", "            self.path_include or None,\n            self.path_exclude or None,")],
    "fire", "", "find_and_fix_paths")
add("C05", "writer-path-from-parent-dir", BDW,
    [("        self.path = Path(dependency_store.file)", "        self.path = Path(parent_directory) / Path(dependency_store.file).name")],
    "fire", "R-WRITE-TARGET", "DependencyWriter.__init__")
add("C05", "libcst-writes-result-location", LT,
    [("                update_code(file_context.file_path, tree.code)", "                update_code(results[0].locations[0].file if results else file_context.file_path, tree.code)")],
    "fire", "R-WRITE-TARGET", "LibcstTransformerPipeline.apply")
add("C05", "manifest-symlink-filter-removed", BP,
    [("            if not path.is_symlink()\n", "")],
    "fire", "R-ENUM-SIBLINGS", "find_file_locations")
add("C05", "files-symlink-filter-removed", CD,
    [("        if Path(path).is_file() and not Path(path).is_symlink()", "        if Path(path).is_file()")],
    "fire", "R-ENUM-SIBLINGS", "files_for_directory")
add("C05", "line-exclude-excludes-file", CD,
    [("        else [x for x in (patterns or []) if \":\" not in x]", "        else [x.split(\":\")[0] for x in (patterns or [])]")],
    "fire", "R-LINE-SUFFIX", "filter_files")
add("C05", "benign-fileset-local", BC,
    [("        del results\n        return (\n            [\n                path\n                for path in context.find_and_fix_paths\n                if path.suffix in self.default_extensions\n            ]\n            if self.default_extensions\n            else context.find_and_fix_paths\n        )",
      "        del results\n        candidates = context.find_and_fix_paths\n        if not self.default_extensions:\n            return candidates\n        return [path for path in candidates if path.suffix in self.default_extensions]")],
    "silent")

# --------------------------------------------------------------------------- C09
add("C09", "class-level-container-not-rebound", CTXF,
    [("        self._failures_by_codemod = {}\n", "")],
    "fire", "R-STATE-KEYED", "_failures_by_codemod")
add("C09", "failures-keyed-by-constant", CTXF,
    [("        self._failures_by_codemod.setdefault(codemod_name, []).extend(failed_files)", "        self._failures_by_codemod.setdefault(\"all\", []).extend(failed_files)")],
    "fire", "R-STATE-KEYED", "add_failures")
add("C09", "deps-before-apply", CM,
    [("        codemod.apply(context)\n        record_dependency_update(context.process_dependencies(codemod.id))", "        record_dependency_update(context.process_dependencies(codemod.id))\n        codemod.apply(context)")],
    "fire", "R-SEQUENTIAL", "apply_codemods")
add("C09", "pool-stored-on-context", BC,
    [("        with ThreadPoolExecutor() as executor:\n            logger.debug(\"using executor with %s workers\", context.max_workers)\n            contexts = executor.map(process_file, files_to_analyze)\n            executor.shutdown(wait=True)\n\n        context.process_results(self.id, contexts)",
      "        executor = ThreadPoolExecutor()\n        contexts = executor.map(process_file, files_to_analyze)\n        context.process_results(self.id, contexts)")],
    "fire", "R-SEQUENTIAL", "_apply")
add("C09", "filecontext-shared-default", FC,
    [("    codemod_changes: list[Change] = field(default_factory=list)", "    codemod_changes: list[Change] = []")],
    "fire", "R-FRESH-FILECONTEXT", "codemod_changes")
add("C09", "filecontext-cached-on-self", BC,
    [("        file_context = FileContext(\n            context.directory,\n            filename,\n            line_exclude,\n            line_include,\n            findings_for_rule,\n        )",
      "        file_context = FileContext(\n            context.directory,\n            filename,\n            line_exclude,\n            line_include,\n            findings_for_rule,\n        )\n        self._last_context = file_context")],
    "fire", "R-FRESH-FILECONTEXT", "_process_file")
add("C09", "process_results-wrong-id", BC,
    [("        context.process_results(self.id, contexts)", "        context.process_results(self.name, contexts)")],
    "fire", "R-STATE-KEYED", "_apply")

# --------------------------------------------------------------------------- C11
add("C11", "as-completed-merge", BC,
    [("            contexts = executor.map(process_file, files_to_analyze)\n            executor.shutdown(wait=True)", "            futures = [executor.submit(process_file, f) for f in files_to_analyze]\n            contexts = [f.result() for f in as_completed(futures)]"),
     ("from concurrent.futures import ThreadPoolExecutor", "from concurrent.futures import ThreadPoolExecutor, as_completed")],
    "fire", "R-ORDERED-MERGE", "_apply")
add("C11", "match_files-unsorted", CD,
    [("        parent_path.joinpath(p) for p in sorted(list(included_files - excluded_files))", "        parent_path.joinpath(p) for p in list(included_files - excluded_files)")],
    "fire", "", "match_files")
add("C11", "worker-mutates-context", BC,
    [("        if change_set := self.transformer.apply(\n            context, file_context, findings_for_rule\n        ):\n            file_context.add_changeset(change_set)", "        if change_set := self.transformer.apply(\n            context, file_context, findings_for_rule\n        ):\n            file_context.add_changeset(change_set)\n            context.add_changesets(self.id, [change_set])")],
    "fire", "R-WORKER-ISOLATION", "")
add("C11", "pipeline-uses-context-timer", LT,
    [("            with file_context.timer.measure(\"parse\"):", "            with context.timer.measure(\"parse\"):")],
    "fire", "R-WORKER-ISOLATION", "LibcstTransformerPipeline.apply")
add("C11", "manifests-unsorted-again", BP,
    [("        return sorted(\n            path\n            for path in Path(self.parent_directory).rglob(self.file_type.value)\n            if not path.is_symlink()\n        )", "        return [\n            path\n            for path in Path(self.parent_directory).rglob(self.file_type.value)\n            if not path.is_symlink()\n        ]")],
    "fire", "R-NO-UNORDERED-ITER", "find_file_locations")
add("C11", "context-drops-max-workers", CTXF,
    [("        self.max_workers = max_workers\n", "")],
    "fire", "R-MAX-WORKERS", "__init__")
add("C11", "second-dependency", "core_codemods/process_creation_sandbox.py",
    [("        self.add_dependency(Security)", "        self.add_dependency(Security)\n        self.add_dependency(DefusedXML)")],
    "fire", "R-NO-UNORDERED-ITER", "ProcessSandbox")

# --------------------------------------------------------------------------- C14
add("C14", "no-break-after-write", CTXF,
    [("                for dep in dependencies:\n                    record[dep] = package_store\n                break\n", "                for dep in dependencies:\n                    record[dep] = package_store\n")],
    "fire", "R-FIRST-WINS", "process_dependencies")
add("C14", "add-skips-has_requirement", BDW,
    [("            if not self.dependency_store.has_requirement(requirement):\n                self.dependency_store.dependencies.add(requirement)\n                new.append(new_dep)", "            self.dependency_store.dependencies.add(requirement)\n            new.append(new_dep)")],
    "fire", "R-FILTERED-ADD", "add")
add("C14", "add-does-not-register", BDW,
    [("                self.dependency_store.dependencies.add(requirement)\n", "")],
    "fire", "R-FILTERED-ADD", "add")
add("C14", "write-passes-all-deps", BDW,
    [("            return self.add_to_file(new_dependencies, dry_run)", "            return self.add_to_file(dependencies, dry_run)")],
    "fire", "R-FILTERED-ADD", "write")
add("C14", "failed-notice-dropped", CTXF,
    [("            else:\n                description += build_failed_dependency_notification(dependencies[0])\n", "")],
    "fire", "R-FAILED-NOTICE", "add_description")

# --------------------------------------------------------------------------- C15
add("C15", "compile-skips-unchanged-codemods", CTXF,
    [("            results.append(result)\n\n        return results", "            if changesets:\n                results.append(result)\n\n        return results")],
    "fire", "R-ONE-RESULT-PER-CODEMOD", "compile_results")
add("C15", "result-summary-from-description", CTXF,
    [("                summary=codemod.summary,", "                summary=codemod.description,")],
    "fire", "R-RESULT-FIELDS", "compile_results")
add("C15", "failed-files-of-all-codemods", CTXF,
    [("                failedFiles=[str(file) for file in self.get_failures(codemod.id)],", "                failedFiles=[str(file) for file in self.get_failed_files()],")],
    "fire", "R-RESULT-FIELDS", "compile_results")
add("C15", "absolute-changeset-path", RT,
    [("            path=str(file_context.file_path.relative_to(context.directory)),\n            diff=diff,\n            changes=changes,", "            path=str(file_context.file_path),\n            diff=diff,\n            changes=changes,")],
    "fire", "R-RELATIVE-PATH", "RegexTransformerPipeline.apply")
add("C15", "regex-no-changes-check-removed", RT,
    [("        if not changes:\n            logger.debug(\"No changes produced for %s\", file_context.file_path)\n            return None\n", "")],
    "fire", "R-NONEMPTY-CHANGES", "RegexTransformerPipeline.apply")
add("C15", "empty-change-description", "core_codemods/use_set_literal.py",
    [("    change_description = \"Replace sets from lists with set literals\"", "    change_description = \"\"")],
    "fire", "R-DESCRIPTION-NONEMPTY", "UseSetLiteral")
add("C15", "empty-default-description-on_result_found", "core_codemods/requests_verify.py",
    [("    change_description = (\n        \"Ensures requests using the `requests` or `httpx` library use `verify=True`.\"\n    )", "    change_description = \"\"")],
    "fire", "R-DESCRIPTION-NONEMPTY", "RequestsVerify")
add("C06", "sonar-codemod-wrong-requested-rule", "core_codemods/sonar/api.py",
    [("            requested_rules=[rule_id],", "            requested_rules=[rule_name],")],
    "fire", "R-REQUESTED-RULES", "from_core_codemod")

# --------------------------------------------------------------------------- C06
add("C06", "numpy-nan-gate-removed", "core_codemods/numpy_nan_equality.py",
    [("        if self.node_is_selected(original_node):\n            match original_node:", "        if True:\n            match original_node:")],
    "fire", "R-GATE-RESULT", "NumpyNanEqualityTransformer")
add("C06", "fix-assert-tuple-line-gate-only", "core_codemods/fix_assert_tuple.py",
    [("                    if not self.node_is_selected(assert_test):", "                    if not self.filter_by_path_includes_or_excludes(self.node_position(assert_test)):")],
    "fire", "R-GATE-RESULT", "FixAssertTuple")
add("C06", "imported-call-modifier-gate-dropped", "codemodder/codemods/imported_call_modifier.py",
    [("        if self.node_is_selected(\n            original_node\n        ) and self.filter_by_path_includes_or_excludes(pos_to_match):", "        if self.filter_by_path_includes_or_excludes(pos_to_match):"),
     ],
    "fire", "R-GATE-RESULT", "")
add("C06", "process-file-all-rules", BC,
    [("                    results.results_for_rule_and_file(context, rule, filename)", "                    [r for rs in results.values() for r in rs.get(filename, [])]")],
    "fire", "R-RULE-KEYED", "_process_file")
add("C06", "no-short-circuit", BC,
    [("        if results is not None and not findings_for_rule:\n            logger.debug(\"no findings for %s, short-circuiting analysis\", filename)\n            return file_context\n", "")],
    "fire", "R-RULE-KEYED", "_process_file")
add("C06", "change-findings-other-line", LT,
    [("                findings=findings\n                or self.file_context.get_findings_for_location(line_number),", "                findings=findings\n                or self.file_context.get_findings_for_location(line_number - 1),")],
    "fire", "R-CHANGE-FINDINGS", "report_change_for_line")
add("C06", "benign-early-return-gate", "core_codemods/numpy_nan_equality.py",
    [("        if self.node_is_selected(original_node):\n            match original_node:", "        if not self.node_is_selected(original_node):\n            return updated_node\n        if True:\n            match original_node:")],
    "silent")

# --------------------------------------------------------------------------- C13
add("C13", "use-set-literal-gate-removed", "core_codemods/use_set_literal.py",
    [("        if not self.filter_by_path_includes_or_excludes(\n            self.node_position(original_node)\n        ):\n            return updated_node\n\n        match original_node.func:\n            case cst.Name(\"set\"):", "        match original_node.func:\n            case cst.Name(\"set\"):")],
    "fire", "R-GATE-LINE", "UseSetLiteral")
add("C13", "filter-copy-diverges", "core_codemods/remove_unused_imports.py",
    [("        if self.line_exclude:\n            return not any(match_line(pos_to_match, line) for line in self.line_exclude)\n        if self.line_include:", "        if self.line_include:\n            return any(match_line(pos_to_match, line) for line in self.line_include)\n        if self.line_exclude:\n            return not any(match_line(pos_to_match, line) for line in self.line_exclude)\n        if self.line_include:")],
    "fire", "R-FILTER-SIBLING", "remove_unused_imports")
add("C13", "flask-send-file-node-again", "core_codemods/replace_flask_send_file.py",
    [("        if self.filter_by_path_includes_or_excludes(\n            self.node_position(original_node)\n        ):", "        if self.filter_by_path_includes_or_excludes(original_node):")],
    "fire", "R-GATE-ARG-TYPE", "ReplaceFlaskSendFile")
add("C13", "line-patterns-absolute-only", BC,
    [("        line_exclude = file_line_patterns(\n            filename, context.path_exclude, context.directory\n        )", "        line_exclude = file_line_patterns(filename, context.path_exclude)")],
    "fire", "R-PATTERN-BASE-SIBLING", "_process_file")
add("C13", "filecontext-args-swapped", BC,
    [("            filename,\n            line_exclude,\n            line_include,\n            findings_for_rule,", "            filename,\n            line_include,\n            line_exclude,\n            findings_for_rule,")],
    "fire", "R-LINE-ARGS", "_process_file")
add("C13", "report-change-updated-node", "core_codemods/fix_assert_tuple.py",
    [("        start_line = self.node_position(original_node).start.line\n        for idx in range(newlines_count):", "        start_line = self.node_position(original_node).start.line\n        for idx in range(newlines_count):"),
     ("                    self._report_new_lines(original_node, len(new_asserts))", "                    self._report_new_lines(original_node, len(new_asserts))\n                    self.lineno_for_node(updated_node)")],
    "fire", "R-ORIGINAL-NODE-POSITION", "FixAssertTuple")
add("C13", "match_line-start-only", "codemodder/codemods/base_visitor.py",
    [("    return pos.start.line == line and pos.end.line == line", "    return pos.start.line == line")],
    "fire", "R-FILTER-SIBLING", "match_line")

# --------------------------------------------------------------------------- C01
add("C01", "future-imports-comma-not-reset", "core_codemods/remove_future_imports.py",
    [("                if updated_names:\n                    # the last remaining alias must not keep a trailing comma\n                    updated_names[-1] = updated_names[-1].with_changes(\n                        comma=cst.MaybeSentinel.DEFAULT\n                    )\n", "")],
    "fire", "R-COMMA-TAIL", "RemoveFutureImports")
add("C01", "unused-imports-comma-not-reset", "codemodder/codemods/transformations/remove_unused_imports.py",
    [("            new_aliases[-1] = new_aliases[-1].with_changes(\n                comma=cst.MaybeSentinel.DEFAULT\n            )\n", "")],
    "fire", "R-COMMA-TAIL", "leave_import_alike")
add("C01", "invert-fallback-comparison-target", "core_codemods/invert_boolean_check.py",
    [("                case _:\n                    # unknown operator: do not rewrite\n                    return None", "                case _:\n                    new_operator = comparison_op")],
    "fire", "R-NODETYPE", "_invert_comparisons")
add("C01", "bad-template-csrf", "core_codemods/flask_enable_csrf_protection.py",
    [("f\"csrf_{named_targets[0].value} = CSRFProtect({named_targets[0].value})\"", "f\"csrf_{named_targets[0].value} = CSRFProtect({named_targets[0].value}\"")],
    "fire", "R-TEMPLATE-PARSES", "FlaskEnableCSRFProtection")
add("C01", "flask-json-fixed-quote-foreign-text", "core_codemods/flask_json_response_type.py",
    [("            cst.SimpleString(f\"'{self.content_type_key}'\"),\n            cst.SimpleString(f\"'{self.json_content_type}'\"),\n        )", "            cst.SimpleString(f\"'{self.content_type_key}'\"),\n            cst.SimpleString(f\"'{node.value}'\"),\n        )")],
    "fire", "R-STRLIT", "FlaskJsonResponseTypeVisitor")

add("C01", "benign-comma-reset-in-list-literal", "codemodder/codemods/transformations/remove_unused_imports.py",
    [("            new_aliases[-1] = new_aliases[-1].with_changes(\n                comma=cst.MaybeSentinel.DEFAULT\n            )\n            return updated_node.with_changes(names=new_aliases)\n", "            last = new_aliases[-1].with_changes(comma=cst.MaybeSentinel.DEFAULT)\n            return updated_node.with_changes(names=[*new_aliases[:-1], last])\n")],
    "silent")
add("C01", "list-literal-keeps-last-alias-comma", "codemodder/codemods/transformations/remove_unused_imports.py",
    [("            new_aliases[-1] = new_aliases[-1].with_changes(\n                comma=cst.MaybeSentinel.DEFAULT\n            )\n            return updated_node.with_changes(names=new_aliases)\n", "            return updated_node.with_changes(names=[*new_aliases[:-1], new_aliases[-1]])\n")],
    "fire", "R-COMMA-TAIL", "leave_import_alike")
add("C01", "comma-reset-only-under-unrelated-guard", "codemodder/codemods/transformations/remove_unused_imports.py",
    [("            new_aliases[-1] = new_aliases[-1].with_changes(\n                comma=cst.MaybeSentinel.DEFAULT\n            )\n            return updated_node.with_changes(names=new_aliases)\n", "            if len(original_node.names) > 2:\n                new_aliases[-1] = new_aliases[-1].with_changes(comma=cst.MaybeSentinel.DEFAULT)\n            return updated_node.with_changes(names=new_aliases)\n")],
    "fire", "R-COMMA-TAIL", "leave_import_alike")
add("C02", "benign-unused-membership-in-predicate-method", "codemodder/codemods/transformations/remove_unused_imports.py",
    [("            if (ia, original_node) not in self.unused_imports\n", "            if not self._is_unused(ia, original_node)\n"),
     ("    def leave_Import(\n", "    def _is_unused(self, alias, import_node):\n        return (alias, import_node) in self.unused_imports\n\n    def leave_Import(\n")],
    "silent")
add("C02", "unused-decided-by-alias-name", "codemodder/codemods/transformations/remove_unused_imports.py",
    [("            if (ia, original_node) not in self.unused_imports\n", "            if ia.evaluated_name not in {a.evaluated_name for a, _ in self.unused_imports}\n")],
    "fire", "R-IMPORT-REMOVAL-OWNER", "identity-of-gathered-pairs")
add("C06", "benign-sonar-status-filter-builtin", "core_codemods/sonar/results.py",
    [("            for result in (data.get(\"issues\") or []) + (data.get(\"hotspots\") or []):\n                if result[\"status\"].lower() in (\"open\", \"to_review\"):\n                    result_set.add_result(SonarResult.from_result(result))\n",
      "            for result in filter(lambda r: r[\"status\"].lower() in _OPEN, (data.get(\"issues\") or []) + (data.get(\"hotspots\") or [])):\n                result_set.add_result(SonarResult.from_result(result))\n"),
     ("class SonarLocation(Location):", "_OPEN = (\"open\", \"to_review\")\n\n\nclass SonarLocation(Location):")],
    "silent")
add("C06", "sonar-status-constant-includes-closed", "core_codemods/sonar/results.py",
    [("                if result[\"status\"].lower() in (\"open\", \"to_review\"):\n", "                if result[\"status\"].lower() in _OPEN:\n"),
     ("class SonarLocation(Location):", "_OPEN = (\"open\", \"to_review\", \"resolved\")\n\n\nclass SonarLocation(Location):")],
    "fire", "R-OPEN-STATUS", "SonarResultSet.from_json")

add("C08", "with-extent-decided-by-last-alias", "core_codemods/file_resource_leak.py",
    [("                if not last_index or (\n                    last_index_for_node and last_index_for_node > last_index\n                ):\n                    last_index = last_index_for_node\n",
      "                last_index = last_index_for_node\n")],
    "fire", "R-EXTENT-ALL-NAMES", "_find_last_index_with_access")
add("C08", "benign-with-extent-running-max", "core_codemods/file_resource_leak.py",
    [("                if not last_index or (\n                    last_index_for_node and last_index_for_node > last_index\n                ):\n                    last_index = last_index_for_node\n",
      "                if last_index_for_node:\n                    last_index = max(last_index or 0, last_index_for_node)\n")],
    "silent")
add("C08", "sql-opening-quote-first-match", "core_codemods/sql_parameterization.py",
    [("            quote_span = list(raw_quote_pattern.finditer(raw_value))[-1]\n        else:\n            quote_span = list(quote_pattern.finditer(raw_value))[-1]\n",
      "            quote_span = raw_quote_pattern.search(raw_value)\n        else:\n            quote_span = quote_pattern.search(raw_value)\n")],
    "fire", "R-CUT-SIDE", "_fix_injection")
add("C08", "sql-closing-quote-last-match", "core_codemods/sql_parameterization.py",
    [("            quote_span = list(raw_quote_pattern.finditer(raw_value))[0]\n        else:\n            quote_span = list(quote_pattern.finditer(raw_value))[0]\n",
      "            quote_span = list(raw_quote_pattern.finditer(raw_value))[-1]\n        else:\n            quote_span = list(quote_pattern.finditer(raw_value))[-1]\n")],
    "fire", "R-CUT-SIDE", "_fix_injection")
add("C08", "benign-sql-closing-quote-by-search", "core_codemods/sql_parameterization.py",
    [("            quote_span = list(raw_quote_pattern.finditer(raw_value))[0]\n        else:\n            quote_span = list(quote_pattern.finditer(raw_value))[0]\n",
      "            quote_span = raw_quote_pattern.search(raw_value)\n        else:\n            quote_span = next(quote_pattern.finditer(raw_value))\n")],
    "silent")

add("C03", "changesets-filed-by-path", "codemodder/context.py",
    [("        self._changesets_by_codemod.setdefault(codemod_name, []).extend(change_sets)\n",
      "        self._changesets_by_codemod.setdefault(codemod_name, {}).update((cs.path, cs) for cs in change_sets)\n")],
    "fire", "R-ACCUMULATE-ALL", "add_changesets")
add("C03", "split-lines-regex-breaks-at-lone-cr", "codemodder/diff.py",
    [("    lines = text.split(\"\\n\")\n    return [line + \"\\n\" for line in lines[:-1]] + ([lines[-1]] if lines[-1] else [])\n",
      "    import re\n    return re.findall(r\"[^\\r\\n]*(?:\\r\\n|\\n|\\r)|[^\\r\\n]+\", text)\n")],
    "fire", "R-LINE-UNIT", "codemodder.diff")
add("C03", "benign-split-lines-regex-lf-only", "codemodder/diff.py",
    [("    lines = text.split(\"\\n\")\n    return [line + \"\\n\" for line in lines[:-1]] + ([lines[-1]] if lines[-1] else [])\n",
      "    import re\n    return re.findall(r\"[^\\n]*\\n|[^\\n]+\", text)\n")],
    "silent")

# --------------------------------------------------------------------------- round-4 rules
add("C07", "fold-prefilter-on-original-children", "core_codemods/combine_calls_base.py",
    [("        for call_matcher in map(self.make_call_matcher, self.combinable_funcs):\n",
      "        if not isinstance(original_node.left, cst.Call) and not isinstance(original_node.right, cst.Call):\n            return updated_node\n\n        for call_matcher in map(self.make_call_matcher, self.combinable_funcs):\n")],
    "fire", "R-FOLD-SEES-UPDATED", "leave_BooleanOperation")
add("C07", "benign-fold-prefilter-on-updated-children", "core_codemods/combine_calls_base.py",
    [("        for call_matcher in map(self.make_call_matcher, self.combinable_funcs):\n",
      "        if not isinstance(updated_node.left, (cst.Call, cst.BooleanOperation)) and not isinstance(updated_node.right, (cst.Call, cst.BooleanOperation)):\n            return updated_node\n\n        for call_matcher in map(self.make_call_matcher, self.combinable_funcs):\n")],
    "silent")
add("C07", "sql-pass-budget", "core_codemods/sql_parameterization.py",
    [("        # Step (1)\n        find_queries = FindQueryCalls(self.context)\n",
      "        self.passes = getattr(self, 'passes', 0)\n        self.passes += 1\n        if self.passes > 10:\n            return tree\n        # Step (1)\n        find_queries = FindQueryCalls(self.context)\n")],
    "fire", "R-NO-WORK-BUDGET", "SQLQueryParameterizationTransformer")
add("C05", "cli-pattern-lstrip-charset", "codemodder/cli.py",
    [("        items = list(dict.fromkeys(values.split(\",\")).keys())\n", "        items = list(dict.fromkeys(v.lstrip(\"./\") for v in values.split(\",\")).keys())\n")],
    "fire", "R-PATTERN-VERBATIM", "CsvListAction")
add("C05", "match-files-lowercases-patterns", "codemodder/code_directory.py",
    [("    patterns = (\n        [x.split(\":\")[0] for x in (patterns or [])]\n", "    patterns = (\n        [x.lower().split(\":\")[0] for x in (patterns or [])]\n")],
    "fire", "R-PATTERN-VERBATIM", "filter_files")
add("C12", "result-sets-combined-with-dict-update", "core_codemods/sonar/api.py",
    [("        combined_result_set |= SonarResultSet.from_json(file)\n", "        combined_result_set.update(SonarResultSet.from_json(file))\n")],
    "fire", "R-MERGE-OP", "process_sonar_findings")
add("C02", "import-flag-overwritten-by-second-call", "core_codemods/fix_mutable_params.py",
    [("        if new_var_decls:\n            # If we're adding statements to the body, we know a change took place\n",
      "        if original_node.params.kwonly_params:\n            (_p, _d, add_annotation) = self._gather_and_update_params(original_node, updated_node)\n\n        if new_var_decls:\n            # If we're adding statements to the body, we know a change took place\n")],
    "fire", "R-IMPORT-FLAG-REACHES", "leave_FunctionDef")
add("C02", "benign-import-flag-accumulated", "core_codemods/fix_mutable_params.py",
    [("        if new_var_decls:\n            # If we're adding statements to the body, we know a change took place\n",
      "        if original_node.params.kwonly_params:\n            (_p, _d, second) = self._gather_and_update_params(original_node, updated_node)\n            add_annotation = add_annotation or second\n\n        if new_var_decls:\n            # If we're adding statements to the body, we know a change took place\n")],
    "silent")
add("C04", "discovery-runs-git-status", "codemodder/code_directory.py",
    [("    return [\n        path\n        for path in Path(parent_path).rglob(\"*\")\n",
      "    import subprocess\n    subprocess.run([\"git\", \"-C\", str(parent_path), \"status\", \"--porcelain\"], capture_output=True)\n    return [\n        path\n        for path in Path(parent_path).rglob(\"*\")\n")],
    "fire", "R-NO-FOREIGN-PROCESS", "files_for_directory")
add("C10", "semgrep-strict-flag", "codemodder/semgrep.py",
    [("            \"--no-error\",\n", "            \"--no-error\",\n            \"--strict\",\n")],
    "fire", "R-SCAN-TOLERANT", "codemodder.semgrep.run")
add("C06", "override-accepts-line-span-without-columns", "core_codemods/jwt_decode_verify.py",
    [("            same_line(pos, location) and fuzzy_column_match(pos, location)\n", "            (same_line(pos, location) and fuzzy_column_match(pos, location)) or pos.start.line <= location.start.line <= pos.end.line\n")],
    "fire", "R-MATCH-COLUMNS", "JwtDecodeVerifySASTTransformer.match_location")
add("C06", "requested-rules-extended-at-apply", "core_codemods/semgrep/api.py",
    [("    @property\n    def origin(self):\n        return \"semgrep\"\n",
      "    @property\n    def origin(self):\n        return \"semgrep\"\n\n    def apply(self, context):\n        self.requested_rules.extend(r for r in context.semgrep_prefilter_results or {} if r.endswith(self.name))\n        super().apply(context)\n")],
    "fire", "R-REQUESTED-RULES", "SemgrepCodemod.apply")
add("C08", "invert-returns-child-without-outer-parens", "core_codemods/invert_boolean_check.py",
    [("        return cst.Comparison(\n            left=comparison.left,\n            comparisons=inverted_comparisons,\n            lpar=updated_node.lpar,\n            rpar=updated_node.rpar,\n        )\n",
      "        return comparison.with_changes(comparisons=inverted_comparisons)\n")],
    "fire", "R-PAREN-SAFE", "report_new_comparison")
add("C01", "emptied-line-replaced-by-its-comments", "core_codemods/remove_debug_breakpoint.py",
    [("                    return cst.RemovalSentinel.REMOVE\n\n        return updated_node\n", "                    return cst.RemovalSentinel.REMOVE\n\n        return updated_node\n\n    def leave_SimpleStatementLine(self, original_node, updated_node):\n        if not updated_node.body:\n            return cst.FlattenSentinel([l for l in original_node.leading_lines if l.comment])\n        return updated_node\n")],
    "fire", "R-NODETYPE", "leave_SimpleStatementLine")
add("C01", "available-name-asked-for-fresh-node", "core_codemods/replace_flask_send_file.py",
    [("        available_name = self.generate_available_name(expr, [\"p\"])\n        named_expr = cst.NamedExpr(\n            target=cst.Name(available_name),\n            value=self._wrap_in_path(expr),",
      "        wrapped = self._wrap_in_path(expr)\n        available_name = self.generate_available_name(wrapped, [\"p\"])\n        named_expr = cst.NamedExpr(\n            target=cst.Name(available_name),\n            value=wrapped,")],
    "fire", "R-METADATA-ORIGINAL", "_build_args_with_path_and_named_expr")

add("C11", "pipeline-keeps-parsed-tree-on-itself", "codemodder/codemods/libcst_transformer.py",
    [("        tree = source_tree\n", "        self.source_tree = source_tree\n        tree = self.source_tree\n")],
    "fire", "R-WORKER-ISOLATION", "LibcstTransformerPipeline.apply")
add("C11", "manifests-sorted-by-depth-only", "codemodder/project_analysis/file_parsers/base_parser.py",
    [("        return sorted(\n            path\n            for path in Path(self.parent_directory).rglob(self.file_type.value)\n            if not path.is_symlink()\n        )\n",
      "        return sorted(\n            (path for path in Path(self.parent_directory).rglob(self.file_type.value) if not path.is_symlink()),\n            key=lambda path: len(path.parts),\n        )\n")],
    "fire", "R-NO-UNORDERED-ITER", "find_file_locations")
add("C11", "benign-manifests-sorted-by-depth-then-path", "codemodder/project_analysis/file_parsers/base_parser.py",
    [("        return sorted(\n            path\n            for path in Path(self.parent_directory).rglob(self.file_type.value)\n            if not path.is_symlink()\n        )\n",
      "        return sorted(\n            (path for path in Path(self.parent_directory).rglob(self.file_type.value) if not path.is_symlink()),\n            key=lambda path: (len(path.parts), path),\n        )\n")],
    "silent")
add("C12", "sonar-findings-generator-walked-twice", "core_codemods/sonar/results.py",
    [("            result_set = cls()\n            for result in (data.get(\"issues\") or []) + (data.get(\"hotspots\") or []):\n                if result[\"status\"].lower() in (\"open\", \"to_review\"):\n                    result_set.add_result(SonarResult.from_result(result))\n",
      "            found = (r for r in (data.get(\"issues\") or []) + (data.get(\"hotspots\") or []) if r[\"status\"].lower() in (\"open\", \"to_review\"))\n            logger.debug(\"open findings: %s\", [r.get(\"key\") for r in found])\n            result_set = cls()\n            for result in found:\n                result_set.add_result(SonarResult.from_result(result))\n")],
    "fire", "R-ONE-SHOT-ITER", "SonarResultSet.from_json")
add("C12", "tool-component-index-tested-by-truthiness", "codemodder/result.py",
    [("            tool_index = result[\"rule\"][\"toolComponent\"][\"index\"]\n            rule_index = result[\"rule\"][\"index\"]\n            return sarif_run[\"tool\"][\"extensions\"][tool_index][\"rules\"][rule_index][\n                \"id\"\n            ]\n",
      "            tool_index = result[\"rule\"].get(\"toolComponent\", {}).get(\"index\")\n            rule_index = result[\"rule\"][\"index\"]\n            comp = sarif_run[\"tool\"][\"extensions\"][tool_index] if tool_index else sarif_run[\"tool\"][\"driver\"]\n            return comp[\"rules\"][rule_index][\"id\"]\n")],
    "fire", "R-INDEX-ZERO", "extract_rule_id")
add("C12", "benign-tool-component-index-tested-for-none", "codemodder/result.py",
    [("            tool_index = result[\"rule\"][\"toolComponent\"][\"index\"]\n            rule_index = result[\"rule\"][\"index\"]\n            return sarif_run[\"tool\"][\"extensions\"][tool_index][\"rules\"][rule_index][\n                \"id\"\n            ]\n",
      "            tool_index = result[\"rule\"].get(\"toolComponent\", {}).get(\"index\")\n            rule_index = result[\"rule\"][\"index\"]\n            comp = sarif_run[\"tool\"][\"extensions\"][tool_index] if tool_index is not None else sarif_run[\"tool\"][\"driver\"]\n            return comp[\"rules\"][rule_index][\"id\"]\n")],
    "silent")
add("C13", "assert-tuple-multiple-passes", "core_codemods/fix_assert_tuple.py",
    [("    change_description = \"Separate assertion on a non-empty tuple literal into multiple assert statements.\"\n",
      "    change_description = \"Separate assertion on a non-empty tuple literal into multiple assert statements.\"\n\n    def should_allow_multiple_passes(self) -> bool:\n        return True\n")],
    "fire", "R-MULTIPASS-LINES", "FixAssertTupleTransform")
add("C15", "writers-changeset-helper-names-bare-file", "codemodder/dependency_management/requirements_txt_writer.py",
    [("        return ChangeSet(\n            path=str(self.path.relative_to(self.parent_directory)),\n            diff=diff,\n            changes=changes,\n        )\n",
      "        return self.build_changeset(diff, changes)\n\n    def build_changeset(self, diff, changes):\n        return ChangeSet(path=self.path.name, diff=diff, changes=changes)\n")],
    "fire", "R-RELATIVE-PATH", "RequirementsTxtWriter.add_to_file")
add("C15", "benign-writers-changeset-public-helper", "codemodder/dependency_management/requirements_txt_writer.py",
    [("        return ChangeSet(\n            path=str(self.path.relative_to(self.parent_directory)),\n            diff=diff,\n            changes=changes,\n        )\n",
      "        return self.build_changeset(diff, changes)\n\n    def build_changeset(self, diff, changes):\n        return ChangeSet(path=str(self.path.relative_to(self.parent_directory)), diff=diff, changes=changes)\n")],
    "silent")
add("C16", "verify-flipped-by-pattern-over-subtree", "core_codemods/requests_verify.py",
    [("        return self.update_arg_target(updated_node, new_args)\n",
      "        del new_args\n        from libcst import matchers as m\n        import libcst as cst\n        return m.replace(updated_node, m.Arg(keyword=m.Name(\"verify\")), lambda a, _: a.with_changes(value=cst.Name(\"True\")))\n")],
    "fire", "R-EDIT-TARGETED", "RequestsVerify.on_result_found")
add("C17", "skip-all-when-default-filtered-paths-empty", "codemodder/codemodder.py",
    [("    if not context.files_to_analyze:\n        logger.info(\"no files to scan\")\n", "    if not context.find_and_fix_paths:\n        logger.info(\"no files to scan\")\n")],
    "fire", "R-ORDER-PRESERVED", "apply_codemods")
add("C17", "benign-apply-loop-over-copy", "codemodder/codemodder.py",
    [("    for codemod in codemods_to_run:\n        # NOTE: this may be used as a progress indicator by upstream tools\n", "    for codemod in list(codemods_to_run):\n        # NOTE: this may be used as a progress indicator by upstream tools\n")],
    "silent")
add("C18", "module-pruned-by-content-precheck", "core_codemods/django_debug_flag_on.py",
    [("    def visit_Module(self, _: cst.Module) -> bool:\n        \"\"\"\n        Only visit module with this codemod if it's a settings.py file.\n        \"\"\"\n        return is_django_settings_file(self.file_context.file_path)\n",
      "    def visit_Module(self, node: cst.Module) -> bool:\n        return is_django_settings_file(self.file_context.file_path) and any(isinstance(s, cst.SimpleStatementLine) for s in node.body)\n")],
    "fire", "R-NO-CONTENT-PRUNE", "DjangoDebugFlagOn.visit_Module")
add("C18", "detector-reuses-prefilter-findings", "codemodder/codemods/semgrep.py",
    [("            return semgrep_run(context, yaml_files, files_to_analyze)\n",
      "            cached = (context.semgrep_prefilter_results or {}).get(codemod_id)\n            if cached:\n                return context.semgrep_prefilter_results\n            return semgrep_run(context, yaml_files, files_to_analyze)\n")],
    "fire", "R-DETECTOR-FRESH", "SemgrepRuleDetector.apply")
add("C19", "xml-accepts-all-for-empty-results", "codemodder/codemods/xml_transformer.py",
    [("        if self.results is None:\n            return True\n        for result in self.results or []:\n", "        if not self.results:\n            return True\n        for result in self.results or []:\n")],
    "fire", "R-RESULT-DRIVEN", "XMLTransformer.match_result")
add("C20", "sarif-handler-hoisted-around-runs-loop", "codemodder/sarifs.py",
    [("            for run in data[\"runs\"]:\n                try:\n                    if det.detect(run):\n                        logger.debug(\"detected %s sarif: %s\", name, fname)\n                        # According to the Codemodder spec, it is invalid to have multiple SARIF results for the same tool\n                        # https://github.com/pixee/codemodder-specs/pull/36\n                        if name in results:\n                            raise DuplicateToolError(\n                                f\"duplicate tool sarif detected: {name}\"\n                            )\n                        results[name].append(str(fname))\n                except DuplicateToolError as err:\n                    raise err\n                except (KeyError, AttributeError, ValueError):\n                    continue\n",
      "            try:\n                for run in data[\"runs\"]:\n                    if det.detect(run):\n                        if name in results:\n                            raise DuplicateToolError(\n                                f\"duplicate tool sarif detected: {name}\"\n                            )\n                        results[name].append(str(fname))\n            except DuplicateToolError as err:\n                raise err\n            except (KeyError, AttributeError, ValueError):\n                continue\n")],
    "fire", "R-EVERY-INPUT-READ", "detect_sarif_tools")

# --------------------------------------------------------------------------- C02
add("C02", "secure-random-import-dropped", "core_codemods/secure_random.py",
    [("        self.add_needed_import(\"secrets\")\n", "")],
    "fire", "R-IMPORT-PAIR", "SecureRandomTransformer")
add("C02", "secure-random-import-only-on-one-path", "core_codemods/secure_random.py",
    [("        self.remove_unused_import(original_node)\n        self.add_needed_import(\"secrets\")\n\n        if self.find_base_name(original_node.func) == \"random.choice\":\n            return self.update_call_target(updated_node, \"secrets\")",
      "        self.remove_unused_import(original_node)\n\n        if self.find_base_name(original_node.func) == \"random.choice\":\n            self.add_needed_import(\"secrets\")\n            return self.update_call_target(updated_node, \"secrets\")")],
    "fire", "R-IMPORT-PAIR", "SecureRandomTransformer")
add("C02", "sslcontext-wrong-import", "core_codemods/upgrade_sslcontext_tls.py",
    [("        self.add_needed_import(\"ssl\")", "        self.add_needed_import(\"tls\")")],
    "fire", "R-IMPORT-PAIR", "UpgradeSSLContextTLS")
add("C02", "csrf-import-dropped-in-one-hook", "core_codemods/flask_enable_csrf_protection.py",
    [("            if new_stmts:\n                self.add_needed_import(\"flask_wtf.csrf\", \"CSRFProtect\")\n                self.add_dependency(FlaskWTF)\n                self.report_change(original_node)\n                return updated_node.with_changes(body=[*original_node.body, *new_stmts])",
      "            if new_stmts:\n                self.add_dependency(FlaskWTF)\n                self.report_change(original_node)\n                return updated_node.with_changes(body=[*original_node.body, *new_stmts])")],
    "fire", "R-IMPORT-PAIR", "FlaskEnableCSRFProtection")
add("C02", "pyyaml-import-even-with-alias-benign", "core_codemods/harden_pyyaml.py",
    [("        if not maybe_aliased_name:\n            self.add_needed_import(YAML_MODULE_NAME)", "        self.add_needed_import(YAML_MODULE_NAME)")],
    "silent")
add("C02", "pyyaml-import-only-with-alias", "core_codemods/harden_pyyaml.py",
    [("        if not maybe_aliased_name:\n            self.add_needed_import(YAML_MODULE_NAME)", "        if maybe_aliased_name:\n            self.add_needed_import(YAML_MODULE_NAME)")],
    "fire", "R-IMPORT-PAIR", "")
add("C02", "new-import-remover", "core_codemods/use_set_literal.py",
    [("    def leave_Call(self, original_node: cst.Call, updated_node: cst.Call):\n        if not self.filter_by_path", "    def leave_ImportFrom(self, original_node, updated_node):\n        if self.filter_by_path_includes_or_excludes(self.node_position(original_node)):\n            return cst.RemoveFromParent()\n        return updated_node\n\n    def leave_Call(self, original_node: cst.Call, updated_node: cst.Call):\n        if not self.filter_by_path")],
    "fire", "R-IMPORT-REMOVAL-OWNER", "UseSetLiteral")

# --------------------------------------------------------------------------- C07 / C18
for _p in ("C07", "C18"):
    add(_p, "requests-verify-sets-false", "core_codemods/requests_verify.py",
        [("[NewArg(name=\"verify\", value=\"True\", add_if_missing=False)]", "[NewArg(name=\"verify\", value=\"False\", add_if_missing=False)]")],
        "fire", "R-FIXED-IMAGE", "requests-verify")
    add(_p, "timeouts-wrong-keyword", "core_codemods/add_requests_timeouts.py",
        [("return self.add_arg_to_call(updated_node, \"timeout\", self.DEFAULT_TIMEOUT)", "return self.add_arg_to_call(updated_node, \"timeouts\", self.DEFAULT_TIMEOUT)")],
        "fire", "R-FIXED-IMAGE", "add-requests-timeouts")
    add(_p, "timeouts-pattern-not-removed", "core_codemods/add_requests_timeouts.py",
        [("            - pattern-not: requests.$CALL(..., timeout=$TIMEOUT, ...)\n", "")],
        "fire", "R-FIXED-IMAGE", "add-requests-timeouts")
    add(_p, "jinja-autoescape-only-if-present", "core_codemods/enable_jinja2_autoescape.py",
        [("[NewArg(name=\"autoescape\", value=\"True\", add_if_missing=True)]", "[NewArg(name=\"autoescape\", value=\"True\", add_if_missing=False)]")],
        "fire", "R-FIXED-IMAGE", "enable-jinja2-autoescape")
    add(_p, "secure-random-keeps-module", "core_codemods/secure_random.py",
        [("            return self.update_call_target(updated_node, \"secrets\")\n        return self.update_call_target(updated_node, \"secrets.SystemRandom()\")", "            return self.update_call_target(updated_node, \"random\")\n        return self.update_call_target(updated_node, \"random.SystemRandom()\")")],
        "fire", "R-FIXED-IMAGE", "secure-random")
    add(_p, "django-debug-stays-true", "core_codemods/django_debug_flag_on.py",
        [("return updated_node.with_changes(value=cst.Name(\"False\"))", "return updated_node.with_changes(value=cst.Name(\"True\"))")],
        "fire", "R-FIXED-IMAGE", "django-debug-flag-on")
    add(_p, "ruamel-typ-base", "core_codemods/harden_ruamel.py",
        [("[NewArg(name=\"typ\", value='\"safe\"', add_if_missing=False)]", "[NewArg(name=\"typ\", value='\"base\"', add_if_missing=False)]")],
        "fire", "R-FIXED-IMAGE", "harden-ruamel")
    add(_p, "benign-new-pattern-not", "core_codemods/requests_verify.py",
        [("                    - pattern: requests.$F(..., verify=False, ...)\n", "                    - pattern: requests.$F(..., verify=False, ...)\n                    - pattern-not: requests.Session(...)\n")],
        "silent")
add("C18", "limit-readline-hook-removed", "core_codemods/limit_readline.py",
    [("    def on_result_found(self, _, updated_node):", "    def on_result_found_disabled(self, _, updated_node):")],
    "fire", "", "limit-readline")
add("C18", "requests-verify-original-args-again", "core_codemods/requests_verify.py",
    [("        new_args = self.replace_args(\n            updated_node, [NewArg(", "        new_args = self.replace_args(\n            original_node, [NewArg(")],
    "fire", "R-LOST-UPDATE", "RequestsVerify")
add("C18", "walrus-returns-original", "core_codemods/use_walrus_if.py",
    [("                        test=updated_node.test.with_changes(left=new_expression)\n                    )\n\n        return updated_node", "                        test=updated_node.test.with_changes(left=new_expression)\n                    )\n\n        return original_node")],
    "fire", "R-LOST-UPDATE", "UseWalrusIf")
add("C18", "leave-call-override-ignores-results", "core_codemods/harden_ruamel.py",
    [("    def on_result_found(self, original_node, updated_node):", "    def leave_Call(self, original_node, updated_node):\n        return updated_node\n\n    def on_result_found(self, original_node, updated_node):")],
    "fire", "R-HOOK-KIND", "harden-ruamel")

# --------------------------------------------------------------------------- C08
add("C08", "fold-right-loses-parens", "core_codemods/combine_calls_base.py",
    [("            operator=node.right.operator,\n            right=new_right,\n            lpar=node.lpar,\n            rpar=node.rpar,", "            operator=node.right.operator,\n            right=new_right,")],
    "fire", "R-PAREN-SAFE", "combine_call_or_boolop_fold_right")
add("C08", "outer-matcher-any-operator", "core_codemods/combine_calls_base.py",
    [("        call_or_call = m.BooleanOperation(\n            left=call_matcher, operator=m.Or(), right=call_matcher\n        )", "        call_or_call = m.BooleanOperation(left=call_matcher, right=call_matcher)")],
    "fire", "R-BOOLOP-OR", "matches_call_or_call")
add("C08", "use-generator-drops-args-again", "core_codemods/use_generator.py",
    [("                                args=[first_arg, *remaining_args],", "                                args=[first_arg],")],
    "fire", "R-ARGS-PRESERVED", "UseGenerator")
add("C08", "invert-table-wrong-pair", "core_codemods/invert_boolean_check.py",
    [("                case cst.LessThan():\n                    new_operator = cst.GreaterThanEqual()", "                case cst.LessThan():\n                    new_operator = cst.GreaterThan()")],
    "fire", "R-INVERT-TABLE", "_invert_comparisons")
add("C08", "invert-chains-again", "core_codemods/invert_boolean_check.py",
    [("        if len(comparison.comparisons) != 1:\n            # `not a == b == c` is not `a != b != c`: leave chained comparisons alone\n            return updated_node\n", "")],
    "fire", "R-INVERT-TABLE", "InvertedBooleanCheckTransformer")
add("C08", "invert-loses-parens", "core_codemods/invert_boolean_check.py",
    [("            comparisons=inverted_comparisons,\n            lpar=updated_node.lpar,\n            rpar=updated_node.rpar,", "            comparisons=inverted_comparisons,")],
    "fire", "R-PAREN-SAFE", "report_new_comparison")

# --------------------------------------------------------------------------- C16
add("C16", "requests-verify-value-false", "core_codemods/requests_verify.py",
    [("[NewArg(name=\"verify\", value=\"True\", add_if_missing=False)]", "[NewArg(name=\"verify\", value=\"False\", add_if_missing=False)]")],
    "fire", "R-DOC-DELTA", "requests-verify")
add("C16", "timeouts-keyword-typo", "core_codemods/add_requests_timeouts.py",
    [("return self.add_arg_to_call(updated_node, \"timeout\", self.DEFAULT_TIMEOUT)", "return self.add_arg_to_call(updated_node, \"timeouts\", self.DEFAULT_TIMEOUT)")],
    "fire", "R-DOC-DELTA", "add-requests-timeouts")
add("C16", "secure-cookie-extra-kwarg", "core_codemods/secure_cookie_mixin.py",
    [("            NewArg(name=\"httponly\", value=\"True\", add_if_missing=True),\n        ]", "            NewArg(name=\"httponly\", value=\"True\", add_if_missing=True),\n            NewArg(name=\"max_age\", value=\"3600\", add_if_missing=True),\n        ]")],
    "fire", "R-DOC-DELTA", "secure-flask-cookie")
add("C16", "url-sandbox-other-callee", "core_codemods/url_sandbox.py",
    [("\"safe_requests\"", "\"unsafe_requests\"")],
    "fire", "R-DOC-DELTA", "url-sandbox")
add("C16", "rsa-drops-tail-again", "core_codemods/semgrep/semgrep_rsa_key_size.py",
    [("                self.make_new_arg(RSA_KEYSIZE),\n                *updated_node.args[2:],", "                self.make_new_arg(RSA_KEYSIZE),")],
    "fire", "R-ARGS-PRESERVED", "RsaKeySizeTransformer")
add("C16", "replace_args-drops-unmatched", LT,
    [("            else:\n                new = arg\n            new_args.append(new)\n\n        for arg_name, replacement_val, add_if_missing in args_info:", "                new_args.append(new)\n\n        for arg_name, replacement_val, add_if_missing in args_info:")],
    "fire", "R-HELPER-CONTRACT", "replace_args")
add("C16", "add_arg_to_call-replaces-all", LT,
    [("        new_args = list(node.args) + [\n            cst.Arg(\n                keyword=cst.Name(value=name),", "        new_args = [\n            cst.Arg(\n                keyword=cst.Name(value=name),")],
    "fire", "R-HELPER-CONTRACT", "add_arg_to_call")

# --------------------------------------------------------------------------- rules added after the seeded-change rounds
add("C03", "libcst-parses-raw-bytes", LT,
    [("source_tree = cst.parse_module(file_path.read_bytes().decode(\"utf-8\"))", "source_tree = cst.parse_module(file_path.read_bytes())")],
    "fire", "R-CODEC-AGREE", "LibcstTransformerPipeline.apply")
add("C10", "lenient-decode", LT,
    [("source_tree = cst.parse_module(file_path.read_bytes().decode(\"utf-8\"))", "source_tree = cst.parse_module(file_path.read_bytes().decode(\"utf-8\", errors=\"replace\"))")],
    "fire", "R-CODEC-AGREE", "LibcstTransformerPipeline.apply")
add("C03", "diff-splitlines-again", "codemodder/diff.py",
    [("        split_lines(original_tree.code),\n        split_lines(new_tree.code),", "        original_tree.code.splitlines(keepends=True),\n        new_tree.code.splitlines(keepends=True),")],
    "fire", "R-LINE-UNIT", "create_diff_from_tree")
add("C10", "worker-stats-file", BC,
    [("        findings_for_rule = None\n        if results is not None:", "        if filename.stat().st_size == 0:\n            return FileContext(context.directory, filename)\n        findings_for_rule = None\n        if results is not None:")],
    "fire", "R-WORKER-NO-RAISE", "_process_file")
add("C18", "dispatcher-swallows-errors", LT,
    [("                new_node = attr(original_node, updated_node)\n                self.report_change(original_node)\n                return new_node", "                try:\n                    new_node = attr(original_node, updated_node)\n                except Exception:\n                    return updated_node\n                self.report_change(original_node)\n                return new_node")],
    "fire", "R-NO-SWALLOW", "_new_or_updated_node")
add("C12", "ior-adopts-inner-dict", RES,
    [("        for k, v in other.items():\n            self[k] = list_dict_or(self.get(k, {}), v)\n        return self", "        for k, v in other.items():\n            if k not in self:\n                self[k] = v\n            else:\n                self[k] = list_dict_or(self[k], v)\n        return self")],
    "fire", "R-MERGE-NO-ALIAS", "__ior__")
add("C06", "sonar-status-blacklist", SRES,
    [("                if result[\"status\"].lower() in (\"open\", \"to_review\"):", "                if result[\"status\"].lower() not in (\"resolved\", \"closed\"):")],
    "fire", "R-OPEN-STATUS", "from_json")
add("C06", "match-location-line-fallback", RES,
    [("        return any(\n            same_line(pos, location)\n            and (", "        return any(\n            (same_line(pos, location) and location.start.column <= 0)\n            or same_line(pos, location)\n            and (")],
    "fire", "R-MATCH-COLUMNS", "match_location")
add("C17", "sast-only-from-result-map", CM,
    [("        sast_only=argv.sonar_issues_json or argv.sarif,", "        sast_only=any(tool_result_files_map.values()),")],
    "fire", "R-SAST-ONLY-SOURCE", "run")
add("C20", "fsync-inside-report-try", CTF,
    [("                f.write(self.model_dump_json(exclude_none=True))\n", "                f.write(self.model_dump_json(exclude_none=True))\n                os.fsync(f.fileno())\n")],
    "fire", "R-REPORT-TRY-MINIMAL", "write_report")
add("C20", "ai-check-after-fallback", "codemodder/llm.py",
    [("    if bool(azure_openapi_key) ^ bool(azure_openapi_endpoint):\n        raise MisconfiguredAIClient(\n            \"Azure OpenAI API key and endpoint must both be set or unset\"\n        )\n\n    if azure_openapi_key and azure_openapi_endpoint:", "    if azure_openapi_key and azure_openapi_endpoint:"),
     ("    logger.info(\"Using OpenAI API client\")\n    return OpenAI(api_key=api_key)", "    logger.info(\"Using OpenAI API client\")\n    client = OpenAI(api_key=api_key)\n    if bool(azure_openapi_key) ^ bool(azure_openapi_endpoint):\n        raise MisconfiguredAIClient(\n            \"Azure OpenAI API key and endpoint must both be set or unset\"\n        )\n    return client")],
    "fire", "R-AI-CONFIG", "setup_openai_llm_client")
add("C14", "has-requirement-cached", "codemodder/project_analysis/file_parsers/package_store.py",
    [("    def has_requirement(self, requirement: Requirement) -> bool:\n        return requirement.name in {dep.name for dep in self.dependencies}", "    @cached_property\n    def declared_names(self):\n        return frozenset(dep.name for dep in self.dependencies)\n\n    def has_requirement(self, requirement: Requirement) -> bool:\n        return requirement.name in self.declared_names"),
     ("from dataclasses import dataclass", "from dataclasses import dataclass\nfrom functools import cached_property")],
    "fire", "R-STORE-COHERENT", "has_requirement")
add("C14", "requirement-with-quoted-marker", "codemodder/dependency.py",
    [("Requirement(\"security==1.3.1\")", "Requirement('security==1.3.1; python_version >= \"3.8\"')")],
    "fire", "R-REQ-CONSTANTS", "codemodder.dependency")
add("C09", "context-parse-cache", CTXF,
    [("        self.semgrep_prefilter_results = None\n        self.openai_llm_client", "        self.semgrep_prefilter_results = None\n        self.parsed_modules = {}\n        self.openai_llm_client"),
     ("    def add_changesets(self, codemod_name: str, change_sets: List[ChangeSet]):", "    def cached_module(self, path):\n        return self.parsed_modules.get(path)\n\n    def add_changesets(self, codemod_name: str, change_sets: List[ChangeSet]):")],
    "fire", "R-RUNWIDE-STATE", "cached_module")
add("C09", "detector-reuses-prefilter", "codemodder/codemods/semgrep.py",
    [("            files_to_analyze = context.semgrep_results_for_rule(codemod_id)\n            return semgrep_run(context, yaml_files, files_to_analyze)", "            files_to_analyze = context.semgrep_results_for_rule(codemod_id)\n            if context.semgrep_prefilter_results and not context.get_changed_files():\n                return context.semgrep_prefilter_results\n            return semgrep_run(context, yaml_files, files_to_analyze)")],
    "fire", "R-DETECTOR-FRESH", "")
add("C19", "short-empty-elements-enabled", XT,
    [("                transformer_instance = self.xml_transformer(\n                    out=output_file,\n                    file_context=file_context,\n                    results=results,\n                )", "                transformer_instance = self.xml_transformer(\n                    out=output_file,\n                    file_context=file_context,\n                    results=results,\n                    short_empty_elements=True,\n                )")],
    "fire", "R-RAW-WRITE-FLUSH", "XMLTransformerPipeline.apply")
add("C19", "sast-regex-findings-from-dict", RT,
    [("                changes.append(\n                    Change(\n                        lineNumber=lineno + 1,\n                        description=self.change_description,\n                        findings=file_context.get_findings_for_location(lineno + 1),\n                    )\n                )\n\n            else:", "                changes.append(\n                    Change(\n                        lineNumber=lineno + 1,\n                        description=self.change_description,\n                        findings=by_line.get(lineno + 1),\n                    )\n                )\n\n            else:"),
     ("        result_linenums = [", "        by_line = {loc.start.line: [res.finding] for res in results for loc in res.locations}\n        result_linenums = [")],
    "fire", "R-LINE-INDEX-AGREE", "SastRegexTransformerPipeline._apply")
add("C11", "order-imports-partial-key", "codemodder/codemods/transformations/clean_imports.py",
    [("        sorted_name_alias.sort(key=lambda t: (_natural_key(t[0]), t[1] or \"\"))", "        sorted_name_alias.sort(key=lambda t: _natural_key(t[0]))")],
    "fire", "R-NO-UNORDERED-ITER", "_create_from_import_stmt")
add("C13", "line-patterns-dict", CD,
    [("    return [\n        int(result[1])\n        for pat in patterns\n        if len(result := pat.split(\":\")) == 2\n        and any(fnmatch.fnmatch(candidate, result[0]) for candidate in candidates)\n    ]", "    by_path = {pat.split(\":\")[0]: int(pat.split(\":\")[1]) for pat in patterns if pat.count(\":\") == 1}\n    return [\n        line\n        for path_pat, line in by_path.items()\n        if any(fnmatch.fnmatch(candidate, path_pat) for candidate in candidates)\n    ]")],
    "fire", "R-LINE-PATTERNS-ALL", "file_line_patterns")
add("C05", "symlink-filter-weakened", CD,
    [("        if Path(path).is_file() and not Path(path).is_symlink()", "        if Path(path).is_file() and (not Path(path).is_symlink() or str(Path(path).resolve()).startswith(str(parent_path)))")],
    "fire", "R-ENUM-SIBLINGS", "files_for_directory")
add("C05", "remediation-gets-default-excludes", CTXF,
    [("            paths,\n            self.path_exclude,\n            self.included_paths,", "            paths,\n            self.path_exclude or None,\n            self.included_paths,")],
    "fire", "R-FILESET-SOURCE", "filter_paths")
add("C02", "unused-import-remover-by-name", "codemodder/codemods/transformations/remove_unused_imports.py",
    [("            if (ia, original_node) not in self.unused_imports", "            if ia.evaluated_name not in {a.evaluated_name for a, _ in self.unused_imports}")],
    "fire", "R-IMPORT-REMOVAL-OWNER", "RemoveUnusedImportsTransformer")
add("C16", "https-updated-args-prefix-only", "core_codemods/https_connection.py",
    [("        new_args = list(original_args)\n        if self.count_positional_args(new_args) == 10:\n            new_args[9] = new_args[9].with_changes(\n                keyword=cst.parse_expression(\"_proxy_config\")\n            )\n        return new_args", "        if self.count_positional_args(original_args) == 10:\n            return [*original_args[:9], original_args[9].with_changes(keyword=cst.parse_expression(\"_proxy_config\"))]\n        return list(original_args)")],
    "fire", "R-ARGS-PRESERVED", "updated_args")

# --------------------------------------------------------------------------- spelling-independence of R-LINE-SUFFIX / match_files-args / R-RULE-KEYED
_FF_OLD = "    patterns = (\n        [x.split(\":\")[0] for x in (patterns or [])]\n        if not exclude\n        # An excluded line should not cause the entire file to be excluded\n        else [x for x in (patterns or []) if \":\" not in x]\n    )\n"
add("C05", "benign-filter-files-if-statement", CD,
    [(_FF_OLD, "    given = patterns or []\n    if exclude:\n        globs = [p for p in given if p.count(\":\") == 0]\n    else:\n        globs = [p.partition(\":\")[0] for p in given]\n    patterns = globs\n")],
    "silent")
add("C05", "benign-filter-files-early-return", CD,
    [(_FF_OLD, "    if exclude:\n        patterns = list(filter(lambda p: \":\" not in p, patterns or []))\n    else:\n        patterns = list(map(lambda p: p.split(\":\", 1)[0], patterns or []))\n")],
    "silent")
add("C05", "include-drops-line-patterns", CD,
    [(_FF_OLD, "    patterns = [x for x in (patterns or []) if \":\" not in x]\n")],
    "fire", "R-LINE-SUFFIX", "filter_files")
add("C05", "exclude-raw-if-statement", CD,
    [(_FF_OLD, "    given = patterns or []\n    if exclude:\n        patterns = list(given)\n    else:\n        patterns = [p.partition(\":\")[0] for p in given]\n")],
    "fire", "R-LINE-SUFFIX", "filter_files")
add("C05", "benign-context-forwarding-helper", CTXF,
    [("        return match_files(\n            self.directory,\n            self.files_to_analyze,\n            # None is effectively a sentinel value to indicate that the default include/exclude paths should be used\n            self.path_exclude or None,\n            self.path_include or None,\n        )\n",
      "        # None is effectively a sentinel value to indicate that the default include/exclude paths should be used\n        return self._match(self.files_to_analyze, self.path_exclude or None, self.path_include or None)\n\n    def _match(self, candidates, excludes, includes):\n        return match_files(self.directory, candidates, exclude_paths=excludes, include_paths=includes)\n"),
     ("        return match_files(\n            self.directory,\n            paths,\n            self.path_exclude,\n            self.included_paths,\n        )\n",
      "        return self._match(paths, self.path_exclude, self.included_paths)\n")],
    "silent")
add("C05", "forwarding-helper-swaps", CTXF,
    [("        return match_files(\n            self.directory,\n            paths,\n            self.path_exclude,\n            self.included_paths,\n        )\n",
      "        return self._match(paths, self.path_exclude, self.included_paths)\n\n    def _match(self, candidates, excludes, includes):\n        return match_files(self.directory, candidates, exclude_paths=includes, include_paths=excludes)\n")],
    "fire", "R-FILESET-SOURCE", "filter_paths")
_PF_OLD = "        findings_for_rule = None\n        if results is not None:\n            findings_for_rule = []\n            for rule in rules:\n                findings_for_rule.extend(\n                    results.results_for_rule_and_file(context, rule, filename)\n                )\n            logger.debug(\"%d findings for %s\", len(findings_for_rule), filename)\n"
_SC_OLD = "        if results is not None and not findings_for_rule:\n            logger.debug(\"no findings for %s, short-circuiting analysis\", filename)\n            return file_context\n"
add("C06", "benign-process-file-respelled", BC,
    [(_PF_OLD, "        findings_for_rule = None\n        if results is not None:\n            findings_for_rule = [\n                finding\n                for rule_id in rules\n                for finding in results.results_for_rule_and_file(context, rule_id, filename)\n            ]\n"),
     (_SC_OLD, "        has_detector = results is not None\n        if has_detector and len(findings_for_rule) == 0:\n            return file_context\n")],
    "silent")
add("C06", "benign-short-circuit-nested", BC,
    [(_SC_OLD, "        if results is not None:\n            if not findings_for_rule:\n                return file_context\n")],
    "silent")
add("C06", "short-circuit-or-instead-of-and", BC,
    [(_SC_OLD, "        if results is None and not findings_for_rule:\n            return file_context\n")],
    "fire", "R-RULE-KEYED", "_process_file")
add("C06", "findings-comprehension-filters-nothing-but-wrong-file", BC,
    [(_PF_OLD, "        findings_for_rule = None\n        if results is not None:\n            findings_for_rule = [\n                finding\n                for rule_id in rules\n                for finding in results.results_for_rule_and_file(context, rule_id, context.directory / filename.name)\n            ]\n")],
    "fire", "R-RULE-KEYED", "_process_file")
add("C06", "benign-lookup-respelled", "codemodder/result.py",
    [("        return self.get(rule_id, {}).get(file.relative_to(context.directory), [])", "        by_file = self.get(rule_id) or {}\n        relative = file.relative_to(context.directory)\n        return by_file.get(relative, [])")],
    "silent")
add("C06", "lookup-by-absolute-file", "codemodder/result.py",
    [("        return self.get(rule_id, {}).get(file.relative_to(context.directory), [])", "        return self.get(rule_id, {}).get(file, [])")],
    "fire", "R-RULE-KEYED", "results_for_rule_and_file")

# --------------------------------------------------------------------------- C17 selection semantics (spelling-independent)
REG = "codemodder/registry.py"
_EXC_OLD = "            base_codemods = {}\n            patterns = [\n                _wildcard_to_regex(exclude)\n                for exclude in codemod_exclude\n                if \"*\" in exclude\n            ]\n            names = set(name for name in codemod_exclude if \"*\" not in name)\n\n            for codemod in self.codemods:\n                if codemod.id in names or any(\n                    pat.fullmatch(codemod.id) for pat in patterns\n                ):\n                    continue\n\n                if bool(sast_only) != bool(codemod.origin == \"pixee\"):\n                    base_codemods[codemod.id] = codemod\n\n            # Remove duplicates and preserve order\n            return list(base_codemods.values())\n"
add("C17", "benign-exclude-branch-as-comprehension", REG,
    [(_EXC_OLD, "            patterns = [_wildcard_to_regex(exclude) for exclude in codemod_exclude if \"*\" in exclude]\n            names = {name for name in codemod_exclude if \"*\" not in name}\n            want_pixee = not sast_only\n            return [\n                codemod\n                for codemod in self.codemods\n                if codemod.id not in names\n                and not any(pat.fullmatch(codemod.id) for pat in patterns)\n                and (codemod.origin == \"pixee\") == want_pixee\n            ]\n")],
    "silent")
add("C17", "exclude-branch-eligibility-dropped-in-comprehension", REG,
    [(_EXC_OLD, "            patterns = [_wildcard_to_regex(exclude) for exclude in codemod_exclude if \"*\" in exclude]\n            names = {name for name in codemod_exclude if \"*\" not in name}\n            return [\n                codemod\n                for codemod in self.codemods\n                if codemod.id not in names\n                and not any(pat.fullmatch(codemod.id) for pat in patterns)\n                and (codemod.origin == \"pixee\" or sast_only)\n            ]\n")],
    "fire", "R-SAST-ONLY-SOURCE", "match_codemods")
add("C17", "exclude-branch-sorted-by-name", REG,
    [("            return list(base_codemods.values())\n", "            return sorted(base_codemods.values(), key=lambda c: c.name)\n")],
    "fire", "R-ORDER-PRESERVED", "match_codemods")
add("C17", "include-branch-list-concat", REG,
    [("                for code in pattern_matches:\n                    matched_codemods.setdefault(code.id, code)\n", "                for code in pattern_matches:\n                    matched_codemods.setdefault(code.name, code)\n")],
    "fire", "R-SELECT-UNIQUE", "match_codemods")
add("C17", "csv-items-through-set", "codemodder/cli.py",
    [("        items = list(dict.fromkeys(values.split(\",\")).keys())", "        items = list(set(values.split(\",\")))")],
    "fire", "R-CLI-EXCLUSIVE", "CsvListAction")
add("C17", "benign-csv-without-dedup", "codemodder/cli.py",
    [("        items = list(dict.fromkeys(values.split(\",\")).keys())", "        items = [item for item in values.split(\",\")]")],
    "silent")
add("C02", "add-needed-import-skips-when-seen-anywhere", LT,
    [("        # TODO: do we need to check if this import already exists?\n        AddImportsVisitor.add_needed_import(self.context, module, obj)",
      "        if obj is None and any(a.evaluated_name == module for n in matchers.findall(self.context.wrapper.module, matchers.Import()) for a in n.names):\n            return\n        AddImportsVisitor.add_needed_import(self.context, module, obj)")],
    "fire", "R-IMPORT-SCHEDULED", "add_needed_import")
add("C02", "benign-add-needed-import-keywords", LT,
    [("        AddImportsVisitor.add_needed_import(self.context, module, obj)", "        AddImportsVisitor.add_needed_import(self.context, module=module, obj=obj)")],
    "silent")
add("C16", "memoised-base-name-by-text", "core_codemods/exception_without_raise.py",
    [("        true_name = self.find_base_name(name)\n", "        memo = self.__dict__.setdefault(\"_names\", {})\n        text = getattr(name, \"value\", None)\n        if text not in memo:\n            self._names[text] = self.find_base_name(name)\n        true_name = self._names[text]\n")],
    "fire", "R-RESOLUTION-NOT-MEMOISED", "ExceptionWithoutRaise")
add("C12", "sonar-component-first-colon", "core_codemods/sonar/results.py",
    [("json_location.get(\"component\").split(\":\")[-1]", "json_location.get(\"component\").partition(\":\")[2]")],
    "fire", "R-SONAR-COMPONENT", "from_json_location")
add("C12", "benign-sonar-component-rpartition", "core_codemods/sonar/results.py",
    [("        file = Path(json_location.get(\"component\").split(\":\")[-1])", "        component = json_location.get(\"component\")\n        file = Path(component.rpartition(\":\")[2])")],
    "silent")
add("C07", "scan-decides-on-first-element", "core_codemods/flask_json_response_type.py",
    [("                        # it may use variable or other expreesions that resolves to Content-Type\n                        case _:\n                            return True\n", "                        # it may use variable or other expreesions that resolves to Content-Type\n                        case _:\n                            return True\n                    return False\n                case _:\n                    return False\n")],
    "fire", "R-SCAN-ALL-ELEMENTS", "_has_content_type_key")
BC2 = "codemodder/codemods/base_codemod.py"
add("C06", "benign-worker-renamed", BC2,
    [("            self._process_file, context=context, results=results, rules=rules", "            self._process_one_file, context=context, results=results, rules=rules"),
     ("    def _process_file(\n", "    def _process_one_file(\n")],
    "silent")
add("C11", "benign-worker-renamed", BC2,
    [("            self._process_file, context=context, results=results, rules=rules", "            self._process_one_file, context=context, results=results, rules=rules"),
     ("    def _process_file(\n", "    def _process_one_file(\n")],
    "silent")
add("C10", "benign-worker-renamed", BC2,
    [("            self._process_file, context=context, results=results, rules=rules", "            self._process_one_file, context=context, results=results, rules=rules"),
     ("    def _process_file(\n", "    def _process_one_file(\n")],
    "silent")
add("C06", "factory-requests-other-rule", "core_codemods/sonar/api.py",
    [("            requested_rules=[rule_id],", "            requested_rules=[rule_name],")],
    "fire", "R-REQUESTED-RULES", "from_core_codemod")
add("C06", "benign-factory-rule-ids-local", "core_codemods/sonar/api.py",
    [("        rule_url = sonar_url_from_id(rule_id)\n", "        rule_url = sonar_url_from_id(rule_id)\n        tool_rules = [ToolRule(id=rule_id, name=rule_name, url=rule_url)]\n        wanted = [rule.id for rule in tool_rules]\n"),
     ("                    rules=[\n                        ToolRule(\n                            id=rule_id,\n                            name=rule_name,\n                            url=rule_url,\n                        )\n                    ],\n", "                    rules=tool_rules,\n"),
     ("            requested_rules=[rule_id],", "            requested_rules=wanted,")],
    "silent")
add("C19", "change-recorded-for-every-line", RT,
    [("            if line != changed_line:\n                changes.append(", "            if True:\n                changes.append(")],
    "fire", "R-ONE-APPEND-PER-LINE", "RegexTransformerPipeline._apply")
add("C20", "argument-error-does-not-exit", CLI,
    [("        logger.error(\"CLI error: %s\", message)\n        sys.exit(3)\n", "        logger.error(\"CLI error: %s\", message)\n")],
    "fire", "R-STATUS-MAP", "error")
add("C20", "list-action-falls-through", CLI,
    [("            self._print_codemods()\n            parser.exit()\n", "            self._print_codemods()\n")],
    "fire", "R-STATUS-MAP", "ListAction")
add("C10", "failures-deduplicated-across-codemods", CTXF,
    [("        self._failures_by_codemod.setdefault(codemod_name, []).extend(failed_files)", "        seen = {f for fs in self._failures_by_codemod.values() for f in fs}\n        self._failures_by_codemod.setdefault(codemod_name, []).extend(f for f in failed_files if f not in seen)")],
    "fire", "R-ACCUMULATE-ALL", "add_failures")
add("C10", "failures-only-logged", CTXF,
    [("        self._failures_by_codemod.setdefault(codemod_name, []).extend(failed_files)", "        logger.debug(\"%d files failed for %s\", len(failed_files), codemod_name)")],
    "fire", "R-ACCUMULATE-ALL", "add_failures")
add("C10", "benign-failures-extended-from-list-copy", CTXF,
    [("        self._failures_by_codemod.setdefault(codemod_name, []).extend(failed_files)", "        recorded = self._failures_by_codemod.setdefault(codemod_name, [])\n        for failed_file in failed_files:\n            recorded.append(failed_file)")],
    "silent")
CM2 = "codemodder/codemodder.py"
add("C15", "early-success-return-skips-report", CM2,
    [("    context.semgrep_prefilter_results = find_semgrep_results(", "    if not codemods_to_run:\n        return 0\n    context.semgrep_prefilter_results = find_semgrep_results(")],
    "fire", "R-REPORT-COMPLETE", "run")
add("C15", "metadata-update-drops-changesets-without-findings", "codemodder/utils/update_finding_metadata.py",
    [("    # TODO: eventually make this functional and return a new list\n    return changesets", "    return [cs for cs in changesets if any(change.findings for change in cs.changes)]")],
    "fire", "R-REPORT-COMPLETE", "update_finding_metadata")
add("C03", "before-operand-loses-leading-blank-lines", REQW,
    [("        original_lines = lines.copy()\n", "        original_lines = lines.copy()\n        while original_lines and not original_lines[0].strip():\n            del original_lines[0]\n")],
    "fire", "R-DIFF-WRITE-AGREE", "RequirementsTxtWriter.add_to_file")
add("C06", "results-preselected-by-rule", "codemodder/codemods/base_visitor.py",
    [("                if result.match_location(pos_to_match, node)\n", "                if result.match_location(pos_to_match, node) and result.rule_id\n")],
    "fire", "R-CANDIDATES-ALL", "results_for_node")
add("C09", "repo-manager-remembers-last-store", "codemodder/project_analysis/python_repo_manager.py",
    [("    def parse_project(self) -> list[PackageStore]:", "    def prefer(self, store) -> None:\n        self._preferred = store\n\n    def parse_project(self) -> list[PackageStore]:"),],
    "fire", "R-RUNWIDE-STATE", "PythonRepoManager.prefer",
    extra_files={CTXF: [("                self._dependency_update_by_codemod[codemod_id] = package_store\n", "                self._dependency_update_by_codemod[codemod_id] = package_store\n                self.repo_manager.prefer(package_store)\n")]})
add("C09", "apply-skips-files-failed-earlier", BC,
    [("        process_file = functools.partial(", "        files_to_analyze = [p for p in files_to_analyze if p not in context.get_failed_files()]\n        process_file = functools.partial(")],
    "fire", "R-RUNWIDE-STATE", "get_failed_files")
add("C01", "timeout-appended-where-rule-allows-it", "core_codemods/add_requests_timeouts.py",
    [("            - pattern-not: requests.$CALL(..., timeout=$TIMEOUT, ...)\n", "            - pattern-not: requests.$CALL(..., timeout=$TIMEOUT, verify=False, ...)\n")],
    "fire", "R-NO-DUP-KEYWORD", "add-requests-timeouts")
add("C12", "semgrep-accumulation-returns-early", "core_codemods/sonar/api.py",
    [("        combined_result_set |= SonarResultSet.from_json(file)\n", "        combined_result_set |= SonarResultSet.from_json(file)\n        if not combined_result_set:\n            return combined_result_set\n")],
    "fire", "R-EVERY-INPUT-READ", "process_sonar_findings")
add("C02", "order-imports-drops-redundant-alias", "codemodder/codemods/transformations/clean_imports.py",
    [("    def _create_import_statement(self, name, alias, comments):\n", "    def _create_import_statement(self, name, alias, comments):\n        alias = None if alias == name else alias\n")],
    "fire", "R-ALIAS-PRESERVED", "_create_import_statement")
add("C02", "global-removed-outside-functions", "core_codemods/remove_module_global.py",
    [("        if isinstance(scope, GlobalScope):", "        if not isinstance(scope, cst.metadata.FunctionScope):")],
    "fire", "R-GLOBAL-REMOVAL-SCOPE", "leave_Global")
add("C20", "converter-looks-up-enum-by-name", CLI,
    [("        type=OutputFormat,\n", "        type=lambda v: OutputFormat[v.upper()],\n")],
    "fire", "R-ARG-CONVERTERS", "parse_args")
add("C14", "failed-notice-suppressed-by-extra-condition", CTXF,
    [("            else:\n                description += build_failed_dependency_notification(dependencies[0])", "            elif not self.dry_run:\n                description += build_failed_dependency_notification(dependencies[0])")],
    "fire", "R-FAILED-NOTICE", "add_description")
add("C14", "manifest-read-with-error-handler", REQW,
    [("            with open(self.path, \"r\", encoding=\"utf-8\", newline=\"\") as f:", "            with open(self.path, \"r\", encoding=\"utf-8\", newline=\"\", errors=\"replace\") as f:")],
    "fire", "R-STRICT-DECODE", "RequirementsTxtWriter")
add("C18", "call-target-rebuilt-from-original-node", "core_codemods/secure_random.py",
    [("        return self.update_call_target(updated_node, \"secrets.SystemRandom()\")", "        return self.update_call_target(original_node, \"secrets.SystemRandom()\")")],
    "fire", "R-LOST-UPDATE", "SecureRandomTransformer")
add("C16", "options-dict-rebuild-skips-unpacked-entries", "core_codemods/jwt_decode_verify.py",
    [("        for element in opts_dict.elements:\n            if is_verify_keyword(element):", "        for element in opts_dict.elements:\n            if isinstance(element, cst.StarredDictElement):\n                continue\n            if is_verify_keyword(element):")],
    "fire", "R-REBUILD-KEEPS-ALL", "_replace_opts_dict")

# --------------------------------------------------------------------------- round 5: memo coherence, parser options
add("C17", "registry-listing-memoised", REG,
    [("    @property\n    def codemods(self):\n        return list(self._codemods_by_id.values())",
      "    @cached_property\n    def codemods(self):\n        return list(self._codemods_by_id.values())"),
     ("from dataclasses import dataclass\n", "from dataclasses import dataclass\nfrom functools import cached_property\n")],
    "fire", "R-MEMO-COHERENT", "CodemodRegistry.codemods")
add("C09", "context-results-memoised-over-growing-dict", CTXF,
    [("    def get_changesets(self, codemod_name: str) -> list[ChangeSet]:\n", "    @cached_property\n    def all_changesets(self):\n        return [c for cs in self._changesets_by_codemod.values() for c in cs]\n\n    def get_changesets(self, codemod_name: str) -> list[ChangeSet]:\n")],
    "fire", "R-MEMO-COHERENT", "all_changesets")
add("C17", "benign-default-include-paths-memoised-from-frozen-input", REG,
    [("    @property\n    def ids(self):\n        return list(self._codemods_by_id.keys())",
      "    @cached_property\n    def excluded_by_default(self):\n        return tuple(DEFAULT_EXCLUDED_CODEMODS)\n\n    @property\n    def ids(self):\n        return list(self._codemods_by_id.keys())"),
     ("from dataclasses import dataclass\n", "from dataclasses import dataclass\nfrom functools import cached_property\n")],
    "silent")
add("C17", "parser-reads-response-files", CLI,
    [("    parser = ArgumentParser(description=\"Run codemods and change code.\")", "    parser = ArgumentParser(description=\"Run codemods and change code.\", fromfile_prefix_chars=\"@\")")],
    "fire", "R-PARSER-PLAIN", "parse_args")
add("C20", "parser-does-not-exit-on-error", CLI,
    [("    parser = ArgumentParser(description=\"Run codemods and change code.\")", "    parser = ArgumentParser(description=\"Run codemods and change code.\", exit_on_error=False)")],
    "fire", "R-PARSER-PLAIN", "parse_args")
add("C20", "benign-parser-epilog", CLI,
    [("    parser = ArgumentParser(description=\"Run codemods and change code.\")", "    parser = ArgumentParser(description=\"Run codemods and change code.\", epilog=\"See the docs.\", allow_abbrev=True)")],
    "silent")
add("C19", "doctype-identifiers-escaped", XT,
    [("            external_id = f' SYSTEM \"{system_id}\"'", "            external_id = f' SYSTEM {quoteattr(system_id)}'"),
     ("from xml.sax.saxutils import XMLGenerator", "from xml.sax.saxutils import XMLGenerator, quoteattr")],
    "fire", "R-XML-VERBATIM", "startDTD")
add("C19", "comment-text-stripped", XT,
    [("        self._write(f\"<!--{content}-->\\n\")  # type: ignore", "        self._write(f\"<!-- {content.strip()} -->\\n\")  # type: ignore")],
    "fire", "R-XML-VERBATIM", "comment")
add("C19", "benign-doctype-built-from-pieces", XT,
    [("        self._write(f\"<!DOCTYPE {name}{external_id}>\\n\")  # type: ignore", "        pieces = [\"<!DOCTYPE \", name]\n        pieces.append(external_id)\n        self._write(\"\".join(pieces) + \">\\n\")  # type: ignore")],
    "silent")
add("C19", "regex-helper-public-and-normalising", RT,
    [("    def _apply_regex(self, line):\n        return re.sub(self.pattern, self.replacement, line)", "    def apply_regex(self, line):\n        return re.sub(self.pattern, self.replacement, line.rstrip(\"\\r\\n\")) + \"\\n\""),
     ("enumerate(original_lines):\n            changed_line = self._apply_regex(line)", "enumerate(original_lines):\n            changed_line = self.apply_regex(line)"),
     ("changed_line = self._apply_regex(line)", "changed_line = self.apply_regex(line)")],
    "fire", "R-NO-MATCH-IDENTITY", "apply_regex")
SG = "codemodder/semgrep.py"
add("C12", "semgrep-uri-percent-decoded", SG,
    [("        file = Path(artifact_location[\"uri\"])", "        file = Path(unquote(artifact_location[\"uri\"]))"),
     ("from pathlib import Path\n", "from pathlib import Path\nfrom urllib.parse import unquote\n")],
    "fire", "R-LOCATION-FILE-VERBATIM", "SemgrepLocation.from_sarif")
add("C18", "semgrep-uri-scheme-stripped", SG,
    [("        file = Path(artifact_location[\"uri\"])", "        file = Path(artifact_location[\"uri\"].removeprefix(\"file://\"))")],
    "fire", "R-LOCATION-FILE-VERBATIM", "SemgrepLocation.from_sarif")
add("C12", "benign-uri-through-single-return-helper", SG,
    [("        file = Path(artifact_location[\"uri\"])", "        file = cls._artifact_path(artifact_location)"),
     ("    @classmethod\n    def from_sarif(cls, sarif_location) -> Self:\n        artifact_location = sarif_location[\"physicalLocation\"][\"artifactLocation\"]\n        file = ",
      "    @staticmethod\n    def _artifact_path(artifact_location) -> Path:\n        return Path(artifact_location[\"uri\"])\n\n    @classmethod\n    def from_sarif(cls, sarif_location) -> Self:\n        artifact_location = sarif_location[\"physicalLocation\"][\"artifactLocation\"]\n        file = ")],
    "silent")
BP = "codemodder/project_analysis/file_parsers/base_parser.py"
add("C10", "manifest-loop-inside-one-try", BP,
    [("        for file in req_files:\n            try:\n                store = self._parse_file(file)\n            except Exception as e:\n                logger.debug(\"Error parsing file: %s\", file, exc_info=e)\n                continue\n\n            if store:\n                stores.append(store)\n",
      "        try:\n            for file in req_files:\n                store = self._parse_file(file)\n                if store:\n                    stores.append(store)\n        except Exception as e:\n            logger.debug(\"Error parsing files\", exc_info=e)\n")],
    "fire", "R-EVERY-INPUT-READ", "BaseParser.parse")
add("C14", "manifest-loop-stops-at-first-bad-file", BP,
    [("                logger.debug(\"Error parsing file: %s\", file, exc_info=e)\n                continue\n", "                logger.debug(\"Error parsing file: %s\", file, exc_info=e)\n                break\n")],
    "fire", "R-EVERY-INPUT-READ", "BaseParser.parse")
CD = "codemodder/code_directory.py"
add("C05", "manifest-discovery-follows-directory-symlinks", BP,
    [("            for path in Path(self.parent_directory).rglob(self.file_type.value)\n", "            for path in map(Path, glob.iglob(str(Path(self.parent_directory) / \"**\" / self.file_type.value), recursive=True))\n"),
     ("from abc import ABC, abstractmethod\n", "import glob\nfrom abc import ABC, abstractmethod\n")],
    "fire", "R-ENUM-SIBLINGS", "find_file_locations")
CTF = "codemodder/codetf.py"
FC = "codemodder/file_context.py"
add("C15", "report-model-normalises-paths", CTF,
    [("    changes: list[Change] = []\n    ai: Optional[AIMetadata] = None\n", "    changes: list[Change] = []\n    ai: Optional[AIMetadata] = None\n\n    @model_validator(mode=\"after\")\n    def normalise_path(self):\n        self.path = self.path.replace(\"\\\\\", \"/\")\n        return self\n")],
    "fire", "R-MODEL-FAITHFUL", "normalise_path")
add("C15", "benign-report-model-checks-path", CTF,
    [("    changes: list[Change] = []\n    ai: Optional[AIMetadata] = None\n", "    changes: list[Change] = []\n    ai: Optional[AIMetadata] = None\n\n    @model_validator(mode=\"after\")\n    def validate_path(self):\n        if not self.path:\n            raise ValueError(\"path must not be empty\")\n        return self\n")],
    "silent")
add("C15", "recorded-changeset-filtered-afterwards", FC,
    [("        self.changesets.append(result)\n", "        result.changes = [c for c in result.changes if c.lineNumber not in self.line_exclude]\n        self.changesets.append(result)\n")],
    "fire", "R-MODEL-FAITHFUL", "ChangeSet")
add("C11", "worker-raises-recursion-limit", LT,
    [("            with file_context.timer.measure(\"transform\"):\n                for transformer in self.transformers:", "            with file_context.timer.measure(\"transform\"):\n                sys.setrecursionlimit(5000)\n                for transformer in self.transformers:"),
     ("import libcst as cst\n", "import sys\n\nimport libcst as cst\n")],
    "fire", "R-WORKER-ISOLATION", "apply")
CSE = "core_codemods/combine_startswith_endswith.py"
add("C08", "fold-receiver-may-be-attribute", CSE,
    [("            func=m.Attribute(value=m.Name(), attr=m.Name(func_name)),", "            func=m.Attribute(value=m.Name() | m.Attribute(), attr=m.Name(func_name)),")],
    "fire", "R-SAME-RECEIVER", "check_calls_same_instance")
add("C08", "fold-receiver-compared-by-last-name", CSE,
    [("        return left_call.func.value.value == right_call.func.value.value", "        return left_call.func.attr.value == right_call.func.attr.value")],
    "fire", "R-SAME-RECEIVER", "check_calls_same_instance")
add("C08", "benign-fold-receiver-deep-equals", CSE,
    [("        return left_call.func.value.value == right_call.func.value.value", "        return left_call.func.value.deep_equals(right_call.func.value)")],
    "silent")
CFGP = "codemodder/project_analysis/file_parsers/setup_cfg_file_parser.py"
add("C14", "setupcfg-parser-lenient-writer-strict", CFGP,
    [("        config = configparser.ConfigParser()", "        config = configparser.ConfigParser(strict=False)")],
    "fire", "R-MANIFEST-SIBLINGS", "same-options")
add("C14", "setupcfg-writer-without-interpolation-only", CFGW,
    [("        config = configparser.ConfigParser()", "        config = configparser.ConfigParser(interpolation=None)")],
    "fire", "R-MANIFEST-SIBLINGS", "same-options")
add("C14", "setuppy-writer-follows-names", SPW,
    [("            ) and matchers.matches(arg.value, matchers.List()):\n                new = self.add_dependencies_to_arg(arg)", "            ) and matchers.matches(self.resolve_expression(arg.value), matchers.List()):\n                new = self.add_dependencies_to_arg(arg)")],
    "fire", "R-MANIFEST-SIBLINGS", "name-resolution-agrees")
CMF = "codemodder/codemodder.py"
add("C20", "stale-report-removed-before-the-run", CMF,
    [("    if argv.output:\n", "    if argv.output:\n        Path(argv.output).unlink(missing_ok=True)\n")],
    "fire", "R-OUTPUT-PATH-OWNER", "unlink")
add("C20", "updated-manifests-listed-without-none-test", CTXF,
    [("    def add_description(self, codemod: BaseCodemod):\n", "    def updated_manifests(self):\n        return [store.file for store in self._dependency_update_by_codemod.values()]\n\n    def add_description(self, codemod: BaseCodemod):\n")],
    "fire", "R-OPTIONAL-ELEMENT-DEREF", "store.file")
add("C20", "benign-updated-manifests-listed-with-none-test", CTXF,
    [("    def add_description(self, codemod: BaseCodemod):\n", "    def updated_manifests(self):\n        return [store.file for store in self._dependency_update_by_codemod.values() if store is not None]\n\n    def add_description(self, codemod: BaseCodemod):\n")],
    "silent")
SONR = "core_codemods/sonar/results.py"
add("C09", "sonar-rule-objects-interned", SONR,
    [("                rule=Rule(\n                    id=rule_id,\n                    name=name,\n                    url=sonar_url_from_id(rule_id),\n                ),", "                rule=_RULES.setdefault((rule_id, name), Rule(id=rule_id, name=name, url=sonar_url_from_id(rule_id))),"),
     ("class SonarLocation(Location):", "_RULES: dict = {}\n\n\nclass SonarLocation(Location):")],
    "fire", "R-FINDING-OWNS-RULE", "SonarResult.from_result")
add("C09", "benign-sonar-rule-bound-to-local-first", SONR,
    [("        return cls(\n            finding_id=finding_id,\n            rule_id=rule_id,\n            locations=locations,\n            codeflows=all_flows,\n            finding=Finding(\n                id=rule_id,\n                rule=Rule(\n                    id=rule_id,\n                    name=name,\n                    url=sonar_url_from_id(rule_id),\n                ),\n            ),",
      "        rule = Rule(id=rule_id, name=name, url=sonar_url_from_id(rule_id))\n        return cls(\n            finding_id=finding_id,\n            rule_id=rule_id,\n            locations=locations,\n            codeflows=all_flows,\n            finding=Finding(id=rule_id, rule=rule),")],
    "silent")
add("C10", "dispatch-swallows-hook-error-and-marks-unfixed", LT,
    [("                new_node = attr(original_node, updated_node)\n", "                try:\n                    new_node = attr(original_node, updated_node)\n                except Exception:\n                    self.report_unfixed(original_node, reason=\"Failed to apply fix\")\n                    return updated_node\n")],
    "fire", "R-NO-SWALLOW", "_new_or_updated_node")
add("C18", "codemod-hook-swallows-around-report", "core_codemods/use_set_literal.py",
    [("                            self.report_change(original_node)\n", "                            try:\n                                self.report_change(original_node)\n                            except Exception:\n                                return updated_node\n")],
    "fire", "R-NO-SWALLOW", "leave_Call")
add("C17", "benign-core-origin-named-constant", REG,
    [("                if bool(sast_only) != bool(codemod.origin == \"pixee\"):", "                if bool(sast_only) != bool(codemod.origin == CORE_ORIGIN):"),
     ("@dataclass\nclass CodemodCollection:", "CORE_ORIGIN = \"pixee\"\n\n\n@dataclass\nclass CodemodCollection:")],
    "silent")
add("C11", "findings-lookup-falls-back-when-path-missing", "codemodder/result.py",
    [("        return self.get(rule_id, {}).get(file.relative_to(context.directory), [])\n\n    def files_for_rule(",
      "        rel = file.relative_to(context.directory)\n        by_file = self.get(rule_id, {})\n        if rel not in by_file and not (context.directory / rel.name).exists():\n            return by_file.get(Path(rel.name), [])\n        return by_file.get(rel, [])\n\n    def files_for_rule(")],
    "fire", "R-LOOKUP-NO-FS", "results_for_rule_and_file")
add("C12", "sarif-results-with-suppressions-skipped", SG,
    [("            for result in sarif_run[\"results\"]:\n", "            for result in sarif_run[\"results\"]:\n                if result.get(\"suppressions\"):\n                    continue\n")],
    "fire", "R-RESULTS-ALL-ADDED", "SemgrepResultSet.from_sarif")
add("C06", "codeql-only-error-level-results", "codemodder/codeql.py",
    [("                    result_set.add_result(codeql_result)", "                    if sarif_result.get(\"level\", \"error\") == \"error\":\n                        result_set.add_result(codeql_result)")],
    "fire", "R-RESULTS-ALL-ADDED", "CodeQLResultSet.from_sarif")
add("C12", "hotspot-files-replace-issue-files", CMF,
    [("    tool_result_files_map[\"sonar\"].extend(argv.sonar_hotspots_json or [])", "    tool_result_files_map[\"sonar\"] = list(argv.sonar_hotspots_json or tool_result_files_map[\"sonar\"])")],
    "fire", "R-OPTION-FILES-REACH", "key:sonar")
add("C12", "hotspot-option-never-read", CMF,
    [("    tool_result_files_map[\"sonar\"].extend(argv.sonar_hotspots_json or [])\n", "")],
    "fire", "R-OPTION-FILES-REACH", "option:sonar_hotspots_json")
add("C12", "benign-sonar-files-added-with-plus-equals", CMF,
    [("    tool_result_files_map[\"sonar\"].extend(argv.sonar_issues_json or [])\n    tool_result_files_map[\"sonar\"].extend(argv.sonar_hotspots_json or [])\n",
      "    for sonar_files in (argv.sonar_issues_json, argv.sonar_hotspots_json):\n        tool_result_files_map[\"sonar\"] += sonar_files or []\n")],
    "silent")
UM = "codemodder/codemods/utils_mixin.py"
add("C18", "plain-import-resolved-by-statement", UM,
    [("        if matchers.matches(import_node, matchers.Import()):\n            return get_full_name_for_node(import_alias.name)", "        if matchers.matches(import_node, matchers.Import()):\n            return _get_name(import_node)")],
    "fire", "R-ALIAS-DECIDES", "base_name_for_import")
DROT = "core_codemods/django_receiver_on_top.py"
add("C16", "decorator-reorder-drops-other-decorators-of-same-kind", DROT,
    [("                new_decorators.extend(\n                    d for d in original_node.decorators if d != receiver\n                )", "                new_decorators.extend(\n                    d for d in original_node.decorators if not isinstance(d.decorator, cst.Call)\n                )")],
    "fire", "R-REBUILD-KEEPS-ALL", "leave_FunctionDef")
add("C16", "benign-decorator-reorder-written-as-loop", DROT,
    [("                new_decorators.extend(\n                    d for d in original_node.decorators if d != receiver\n                )", "                for d in original_node.decorators:\n                    if d != receiver:\n                        new_decorators.append(d)")],
    "silent")
BOC = "core_codemods/break_or_continue_out_of_loop.py"
add("C02", "emptied-if-statement-removed", BOC,
    [("    def leave_Else(", "    def leave_If(self, original_node, updated_node):\n        if not updated_node.body.body and updated_node.orelse is None:\n            return cst.RemovalSentinel.REMOVE\n        return updated_node\n\n    def leave_Else(")],
    "fire", "R-REMOVAL-KINDS", "leave_If")
ICM = "codemodder/codemods/imported_call_modifier.py"
add("C13", "definitions-without-included-line-not-traversed", ICM,
    [("    def leave_Call(", "    def visit_FunctionDef(self, node):\n        pos = self.node_position(node)\n        return not self.line_include or any(pos.start.line <= n <= pos.end.line for n in self.line_include)\n\n    def leave_Call(")],
    "fire", "R-NO-LINE-PRUNE", "visit_FunctionDef")
RFI = "core_codemods/remove_future_imports.py"
add("C08", "future-imports-kept-from-allow-list", RFI,
    [("                    if name.name.value not in DEPRECATED_NAMES", "                    if name.name.value in CURRENT_NAMES")],
    "fire", "R-FUTURE-DROPS-ONLY-DEPRECATED", "leave_ImportFrom")
DGI = "core_codemods/disable_graphql_introspection.py"
add("C01", "existing-rules-expression-put-under-a-star", DGI,
    [("                    case cst.List():\n                        # does it have any introspection rule", "                    case cst.BooleanOperation() | cst.IfExp():\n                        nodes_to_change[resolved] = cst.List(elements=[cst.StarredElement(value=resolved), cst.Element(value=cst.Name(\"NoSchemaIntrospectionCustomRule\"))])\n                    case cst.List():\n                        # does it have any introspection rule")],
    "fire", "R-STARRED-OPERAND", "StarredElement")
add("C01", "benign-name-put-under-a-star", DGI,
    [("                    case cst.List():\n                        # does it have any introspection rule", "                    case cst.Name() | cst.Call():\n                        nodes_to_change[resolved] = cst.List(elements=[cst.StarredElement(value=resolved), cst.Element(value=cst.Name(\"NoSchemaIntrospectionCustomRule\"))])\n                    case cst.List():\n                        # does it have any introspection rule")],
    "silent")
CA = "codemodder/codemods/check_annotations.py"
add("C06", "comment-gathering-visitor-kept-between-walks", CA,
    [("    visitor = _GatherCommentNodes(metadata, messages)\n    node.visit(visitor)\n    return visitor.is_disabled_by_linter(node)",
      "    return _Checker.shared(metadata, messages).check(node)\n\n\nclass _Checker:\n    _one = None\n\n    def __init__(self, metadata, messages):\n        self._visitor = _GatherCommentNodes(metadata, messages)\n\n    @classmethod\n    def shared(cls, metadata, messages):\n        if cls._one is None:\n            cls._one = cls(metadata, messages)\n        return cls._one\n\n    def check(self, node):\n        node.visit(self._visitor)\n        return self._visitor.is_disabled_by_linter(node)")],
    "fire", "R-FRESH-VISITOR", "check")
DSC = "core_codemods/django_session_cookie_secure_off.py"
add("C13", "already-correct-flag-recorded-only-on-permitted-lines", DSC,
    [("        if is_session_cookie_secure(original_node):\n            if is_assigned_to_True(original_node):", "        if is_session_cookie_secure(original_node) and self.filter_by_path_includes_or_excludes(pos_to_match):\n            if is_assigned_to_True(original_node):")],
    "fire", "R-GATE-NOT-OVER-STATE", "flag_correctly_set")
SFS = "core_codemods/secure_flask_session_config.py"
add("C13", "flask-app-name-recorded-only-on-permitted-lines", SFS,
    [("        if self.find_base_name(original_node.func) == \"flask.Flask\":\n            self._store_flask_app(original_node)", "        if not self.filter_by_path_includes_or_excludes(self.node_position(original_node)):\n            return updated_node\n        if self.find_base_name(original_node.func) == \"flask.Flask\":\n            self._store_flask_app(original_node)")],
    "fire", "R-GATE-NOT-OVER-STATE", "flask_app_name")
BCM = "codemodder/codemods/base_codemod.py"
add("C20", "pool-size-from-option-unvalidated", BCM,
    [("        with ThreadPoolExecutor() as executor:", "        with ThreadPoolExecutor(max_workers=context.max_workers) as executor:")],
    "fire", "R-WORKERS-VALIDATED", "max_workers-range")
add("C20", "benign-pool-size-from-option-clamped", BCM,
    [("        with ThreadPoolExecutor() as executor:", "        with ThreadPoolExecutor(max_workers=max(1, context.max_workers)) as executor:")],
    "silent")
PPW = "codemodder/dependency_management/pyproject_writer.py"
add("C14", "poetry-requirement-assigned-over-existing-entry", PPW,
    [("                pyproject[\"tool\"][\"poetry\"][\"dependencies\"].append(\n                    dep.requirement.name, str(dep.requirement.specifier)\n                )", "                pyproject[\"tool\"][\"poetry\"][\"dependencies\"][dep.requirement.name] = str(dep.requirement.specifier)")],
    "fire", "R-MANIFEST-NO-OVERWRITE", "store[")
add("C10", "unfixed-findings-filtered-on-the-way-to-the-report", CTXF,
    [("unfixedFindings=self.get_unfixed_findings(codemod.id),", "unfixedFindings=_known_rules_only(self.get_unfixed_findings(codemod.id)),"),
     ("class CodemodExecutionContext:", "def _known_rules_only(unfixed_findings):\n    return [f for f in unfixed_findings if f.rule.url]\n\n\nclass CodemodExecutionContext:")],
    "fire", "R-REPORT-COMPLETE", "unfixedFindings")

RQW = "codemodder/dependency_management/requirements_txt_writer.py"
for _p in ("C14", "C20"):
    add(_p, "manifest-read-handler-narrowed-to-oserror", RQW,
        [("                return f.readlines()\n        except Exception:", "                return f.readlines()\n        except OSError:")],
        "fire", "R-DECODE-HANDLED", "read-under-try")
    add(_p, "benign-manifest-read-handler-lists-valueerror", RQW,
        [("                return f.readlines()\n        except Exception:", "                return f.readlines()\n        except (OSError, ValueError):")],
        "silent")

SARIFS = "codemodder/sarifs.py"
add("C17", "sarif-list-pruned-in-place-by-the-tool-detection", CM,
    [("            [Path(name) for name in argv.sarif or []]\n", "            argv.sarif or []\n")],
    "fire", "R-CLI-NAMESPACE-FROZEN", "arg:sarif",
    extra_files={SARIFS: [("    for fname in filenames:\n        data = json.loads(fname.read_text(encoding=\"utf-8-sig\"))", "    for fname in list(filenames):\n        fname = Path(fname)\n        if not fname.suffix:\n            filenames.remove(fname)\n            continue\n        data = json.loads(fname.read_text(encoding=\"utf-8-sig\"))")]})
add("C17", "benign-sarif-list-handed-over-and-only-read", CM,
    [("            [Path(name) for name in argv.sarif or []]\n", "            argv.sarif or []\n")],
    "silent",
    extra_files={SARIFS: [("    for fname in filenames:\n        data = json.loads(fname.read_text(encoding=\"utf-8-sig\"))", "    for fname in filenames:\n        fname = Path(fname)\n        data = json.loads(fname.read_text(encoding=\"utf-8-sig\"))")]})
DDR = "core_codemods/defectdojo/results.py"
for _p in ("C09", "C11"):
    add(_p, "defectdojo-rule-interned-per-title-and-renamed-by-tuple-assignment", DDR,
        [("                rule=Rule(\n                    # TODO: it's possible that these fields actually come from the codemod and not the result\n                    id=str(result[\"title\"]),\n                    name=str(result[\"title\"]),\n                    url=None,\n                ),", "                rule=_rule_from_title(str(result[\"title\"])),"),
         ("class DefectDojoResult(SASTResult):", "@cache\ndef _rule_from_title(title: str) -> Rule:\n    return Rule(id=title, name=title, url=None)\n\n\nclass DefectDojoResult(SASTResult):")],
        "fire", "R-FINDING-OWNS-RULE", "rule-object-per-finding",
        extra_files={"codemodder/utils/update_finding_metadata.py": [("                    finding.rule.name = tool_rule_map[finding.id][0]\n                    finding.rule.url = tool_rule_map[finding.id][1]", "                    finding.rule.name, finding.rule.url = tool_rule_map[finding.id]")]})

FCX = "codemodder/file_context.py"
add("C06", "findings-lookup-answers-for-a-range-of-lines", FCX,
    [("    def get_findings_for_location(self, line_number: int):", "    def get_findings_for_location(self, line_number: int, end_line: int | None = None):\n        last_line = line_number if end_line is None else end_line"),
     ("                location.start.line <= line_number <= location.end.line", "                location.start.line <= last_line and line_number <= location.end.line")],
    "fire", "R-FINDINGS-LOOKUP", "lookup-single-line")
add("C06", "benign-findings-lookup-two-comparisons-one-line", FCX,
    [("                location.start.line <= line_number <= location.end.line", "                location.start.line <= line_number and line_number <= location.end.line")],
    "silent")

UWI = "core_codemods/use_walrus_if.py"
add("C01", "walrus-value-loses-its-own-parentheses", UWI,
    [("    def _build_named_expr(self, target, value, parens=True):\n", "    def _build_named_expr(self, target, value, parens=True):\n        if parens and value.lpar:\n            return cst.NamedExpr(target=target, value=value.with_changes(lpar=[], rpar=[]), lpar=value.lpar, rpar=value.rpar)\n")],
    "fire", "R-PARENS-NOT-STRIPPED", "strip:value")

CDR = "codemodder/code_directory.py"
for _p in ("C05", "C12", "C17"):
    add(_p, "project-listing-leaves-out-hidden-directories", CDR,
        [("        if Path(path).is_file() and not Path(path).is_symlink()", "        if not any(part.startswith(\".\") for part in path.parts[:-1])\n        and Path(path).is_file()\n        and not Path(path).is_symlink()")],
        "fire", "R-ENUM-SIBLINGS", "kind-tests-only")

DDA = "core_codemods/defectdojo/api.py"
add("C12", "defectdojo-results-equal-by-id-and-deduplicated", DDA,
    [("        result_set |= DefectDojoResultSet.from_json(filename)\n", "        result_set |= DefectDojoResultSet.from_json(filename)\n    for results_by_file in result_set.values():\n        for path, results in results_by_file.items():\n            results_by_file[path] = list(dict.fromkeys(results))\n")],
    "fire", "R-RESULT-EQUALITY", "dedup:",
    extra_files={DDR: [("    @override\n    def match_location(self, pos: CodeRange, node: cst.CSTNode) -> bool:", "    def __eq__(self, other: object) -> bool:\n        return isinstance(other, DefectDojoResult) and self.finding_id == other.finding_id\n\n    def __hash__(self) -> int:\n        return hash(self.finding_id)\n\n    @override\n    def match_location(self, pos: CodeRange, node: cst.CSTNode) -> bool:")]})
add("C12", "benign-defectdojo-exact-copies-dropped", DDA,
    [("        result_set |= DefectDojoResultSet.from_json(filename)\n", "        result_set |= DefectDojoResultSet.from_json(filename)\n    for results_by_file in result_set.values():\n        for path, results in results_by_file.items():\n            results_by_file[path] = [r for i, r in enumerate(results) if r not in results[:i]]\n")],
    "silent")

for _p in ("C06", "C19"):
    add(_p, "findings-lookup-iterates-locations-in-a-second-generator", FCX,
        [("            if any(\n                location.start.line <= line_number <= location.end.line\n                for location in result.locations\n            )\n            and result.finding is not None", "            for location in result.locations\n            if result.finding is not None\n            and location.start.line <= line_number <= location.end.line")],
        "fire", "R-FINDINGS-LOOKUP", "lookup-once-per-result")

for _p in ("C03", "C10"):
    add(_p, "merge-loop-carries-on-after-the-map-iterator-raised", CTXF,
        [("        for file_context in results:\n", "        results = iter(results)\n        while True:\n            try:\n                file_context = next(results)\n            except StopIteration:\n                break\n            except OSError as err:\n                logger.exception(\"%s: %s\", codemod_id, err)\n                continue\n")],
        "fire", "R-ITER-NO-RESUME", "next:results")

SCW = "codemodder/dependency_management/setupcfg_writer.py"
for _p in ("C14", "C03"):
    add(_p, "setupcfg-new-lines-after-an-unterminated-last-line", SCW,
        [("            preceding_lines = original_lines[: last_dep_idx + 1]\n            if not preceding_lines[-1].endswith(\"\\n\"):\n                # the last dependency ends a file without a final newline\n                preceding_lines[-1] += eol\n            new_lines = preceding_lines + new_deps + original_lines[last_dep_idx + 1 :]",
          "            new_lines = (\n                original_lines[: last_dep_idx + 1]\n                + new_deps\n                + original_lines[last_dep_idx + 1 :]\n            )")],
        "fire", "R-INSERT-AFTER-TERMINATED", "insert-after:original_lines")
add("C14", "requirements-new-lines-after-an-unterminated-last-line", RQW,
    [("        if not original_lines[-1].endswith(\"\\n\"):\n            original_lines[-1] += eol\n", "")],
    "fire", "R-INSERT-AFTER-TERMINATED", "insert-after:original_lines")

RUI = "core_codemods/remove_unused_imports.py"
add("C11", "unused-imports-changes-recorded-in-set-order", RUI,
    [("        for import_alias, importt in unused_imports:", "        for import_alias, importt in gather_unused_visitor.unused_imports:")],
    "fire", "R-NO-UNORDERED-ITER", "for:gather_unused_visitor.unused_imports")
