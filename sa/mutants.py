"""Seeded faults and benign variants used by the thorough-tier self-test (in-memory overlays)."""
from .selftest import Mutant as M

MUTANTS: list[M] = []


def add(*a, **k):
    MUTANTS.append(M(*a, **k))


# --------------------------------------------------------------------------- C04
LT = "codemodder/codemods/libcst_transformer.py"
RT = "codemodder/codemods/regex_transformer.py"
XT = "codemodder/codemods/xml_transformer.py"
CTXF = "codemodder/context.py"
PYW = "codemodder/dependency_management/pyproject_writer.py"
REQW = "codemodder/dependency_management/requirements_txt_writer.py"
CFGW = "codemodder/dependency_management/setupcfg_writer.py"
SPW = "codemodder/dependency_management/setup_py_writer.py"
DM = "codemodder/dependency_management/dependency_manager.py"
BDW = "codemodder/dependency_management/base_dependency_writer.py"

add("C04", "libcst-guard-removed", LT,
    [("        if not context.dry_run:\n            with file_context.timer.measure(\"write\"):\n                update_code(file_context.file_path, tree.code)",
      "        with file_context.timer.measure(\"write\"):\n            update_code(file_context.file_path, tree.code)")],
    "fire", "R-DRYRUN-GUARD", "update_code")
add("C04", "regex-guard-inverted", RT,
    [("        if not context.dry_run:\n            file_context.file_path.write_bytes", "        if context.dry_run:\n            file_context.file_path.write_bytes")],
    "fire", "R-DRYRUN-GUARD", "RegexTransformerPipeline.apply")
add("C04", "pyproject-guard-removed", PYW,
    [("        if not dry_run:\n            with open(self.path, \"w\", encoding=\"utf-8\") as f:\n                tomlkit.dump(pyproject, f)",
      "        with open(self.path, \"w\", encoding=\"utf-8\") as f:\n            tomlkit.dump(pyproject, f)")],
    "fire", "R-DRYRUN-GUARD", "PyprojectWriter.add_to_file")
add("C04", "context-drops-dry-arg", CTXF,
    [("dm.write(list(dependencies), self.dry_run)", "dm.write(list(dependencies))")],
    "fire", "R-DRYRUN-THREAD", "process_dependencies")
add("C04", "manager-passes-constant", DM,
    [("                return PyprojectWriter(\n                    self.dependencies_store, self.parent_directory\n                ).write(dependencies, dry_run)",
      "                return PyprojectWriter(\n                    self.dependencies_store, self.parent_directory\n                ).write(dependencies, False)")],
    "fire", "R-DRYRUN-THREAD", "DependencyManager.write")
add("C04", "writer-base-drops-arg", BDW,
    [("return self.add_to_file(new_dependencies, dry_run)", "return self.add_to_file(new_dependencies)")],
    "fire", "R-DRYRUN-THREAD", "DependencyWriter.write")
add("C04", "dry-run-early-return", XT,
    [("            if not changes:\n                return None\n", "            if not changes or context.dry_run:\n                return None\n")],
    "fire", "R-DRYRUN-ONLY-WRITES", "XMLTransformerPipeline.apply")
add("C04", "dry-run-skips-changes", REQW,
    [("        if not dry_run:\n            try:", "        if not dry_run:\n            original_lines = lines\n            try:")],
    "fire", "R-DRYRUN-ONLY-WRITES", "RequirementsTxtWriter.add_to_file")
add("C04", "new-unguarded-backup-write", CFGW,
    [("        if not dry_run:\n            try:\n                with open(self.path, \"w\"", "        self.path.with_suffix(\".bak\").write_text(\"\".join(original_lines))\n        if not dry_run:\n            try:\n                with open(self.path, \"w\"")],
    "fire", "R-DRYRUN-GUARD", "SetupCfgWriter.add_to_file")
# benign: early-return form of the same guard; alias local
add("C04", "benign-early-return-guard", RT,
    [("        if not context.dry_run:\n            file_context.file_path.write_bytes(\"\".join(updated_lines).encode(\"utf-8\"))\n\n        return ChangeSet(",
      "        change_set = ChangeSet(")
     , ("            changes=changes,\n        )\n\n\nclass SastRegex", "            changes=changes,\n        )\n        if not context.dry_run:\n            file_context.file_path.write_bytes(\"\".join(updated_lines).encode(\"utf-8\"))\n        return change_set\n\n\nclass SastRegex")],
    "silent")
add("C04", "benign-helper-extraction", SPW,
    [("        if not dry_run:\n            with open(self.path, \"w\", encoding=\"utf-8\") as f:\n                f.write(output_tree.code)\n",
      "        if not dry_run:\n            self._store(output_tree.code)\n"),
     ("    def _parse_file(self):\n        with open(self.path, encoding=\"utf-8\") as f:\n            return cst.parse_module(f.read())",
      "    def _store(self, code):\n        with open(self.path, \"w\", encoding=\"utf-8\") as f:\n            f.write(code)\n\n    def _parse_file(self):\n        with open(self.path, encoding=\"utf-8\") as f:\n            return cst.parse_module(f.read())")],
    "silent")

# --------------------------------------------------------------------------- C03
add("C03", "libcst-writes-source-tree", LT,
    [("update_code(file_context.file_path, tree.code)", "update_code(file_context.file_path, source_tree.code)")],
    "fire", "R-DIFF-WRITE-AGREE", "LibcstTransformerPipeline.apply")
add("C03", "regex-diff-against-other-lines", RT,
    [("        diff = create_diff(original_lines, updated_lines)", "        diff = create_diff(original_lines, [l.rstrip() + \"\\n\" for l in updated_lines])")],
    "fire", "R-DIFF-WRITE-AGREE", "RegexTransformerPipeline.apply")
add("C03", "requirements-writes-unnormalised", REQW,
    [("                    f.writelines(updated_lines)", "                    f.writelines(lines + requirement_lines)")],
    "fire", "R-DIFF-WRITE-AGREE", "RequirementsTxtWriter.add_to_file")
add("C03", "libcst-write-before-empty-diff-check", LT,
    [("        if not (diff := create_diff_from_tree(source_tree, tree)):\n            logger.debug(\"No code diff produced for %s\", file_path)\n            return None\n",
      "        if not context.dry_run:\n            update_code(file_context.file_path, tree.code)\n        if not (diff := create_diff_from_tree(source_tree, tree)):\n            logger.debug(\"No code diff produced for %s\", file_path)\n            return None\n")],
    "fire", "R-CHANGESET-IFF-WRITE", "LibcstTransformerPipeline.apply")
add("C03", "xml-changeset-without-write-on-some-path", XT,
    [("            if not context.dry_run:\n                file_context.file_path.write_bytes", "            if not context.dry_run and len(new_lines) > 1:\n                file_context.file_path.write_bytes")],
    "fire", "R-CHANGESET-IFF-WRITE", "XMLTransformerPipeline.apply")
add("C03", "libcst-drops-empty-diff-test", LT,
    [("        if not (diff := create_diff_from_tree(source_tree, tree)):\n            logger.debug(\"No code diff produced for %s\", file_path)\n            return None\n",
      "        diff = create_diff_from_tree(source_tree, tree)\n")],
    "fire", "R-EMPTY-DIFF-NO-CHANGESET", "LibcstTransformerPipeline.apply")
add("C03", "libcst-drops-no-changes-test", LT,
    [("        if not file_context.codemod_changes:\n            logger.debug(\"No changes produced for %s\", file_path)\n            return None\n", "")],
    "fire", "R-EMPTY-DIFF-NO-CHANGESET", "LibcstTransformerPipeline.apply")
add("C03", "regex-text-mode-write", RT,
    [("file_context.file_path.write_bytes(\"\".join(updated_lines).encode(\"utf-8\"))", "file_context.file_path.write_text(\"\".join(updated_lines))")],
    "fire", "R-NEWLINE-LOSSLESS", "RegexTransformerPipeline.apply")
add("C03", "libcst-cached-read", LT,
    [("                source_tree = cst.parse_module(file_path.read_bytes().decode(\"utf-8\"))", "                source_tree = _parse(file_path)"),
     ("def update_code(file_path, new_code):", "import functools\n\n\n@functools.cache\ndef _parse(file_path):\n    return cst.parse_module(file_path.read_bytes().decode(\"utf-8\"))\n\n\ndef update_code(file_path, new_code):")],
    "fire", "", "LibcstTransformerPipeline.apply")
add("C03", "benign-rename-locals", RT,
    [("        changes, updated_lines = self._apply(original_lines, file_context, results)", "        changes, new_lines = self._apply(original_lines, file_context, results)"),
     ("        diff = create_diff(original_lines, updated_lines)", "        diff = create_diff(original_lines, new_lines)"),
     ("file_context.file_path.write_bytes(\"\".join(updated_lines).encode(\"utf-8\"))", "file_context.file_path.write_bytes(\"\".join(new_lines).encode(\"utf-8\"))")],
    "silent")
