#!/venv/bin/python
"""Run every /verif check against behaviour-preserving refactorings (patch.diff files): any new finding is a false alarm.

usage: verify_benign.py <dir-with-patch.diff> [...]
Scratch worktrees live under /tmp/vwt and are removed afterwards.  Prints one line per patch.
"""
import json, os, subprocess, sys, threading
from concurrent.futures import ThreadPoolExecutor
from pathlib import Path


def _git_wt(*args, check=False):
    """git worktree add/remove under a machine-wide file lock (git's worktree bookkeeping is not safe against concurrent add/remove)"""
    import fcntl
    os.makedirs("/tmp/vwt", exist_ok=True)
    with open("/tmp/vwt/.wtlock", "w") as lk:
        fcntl.flock(lk, fcntl.LOCK_EX)
        return subprocess.run(["git", "-C", "/repo", "worktree", *args], capture_output=True, text=True, check=check)


head = subprocess.run(["git", "-C", "/repo", "rev-parse", "HEAD"], capture_output=True, text=True).stdout.strip()
base_file = Path(f"/tmp/vwt_baseline_{head[:10]}.json")
if not base_file.exists():
    subprocess.run(["/venv/bin/python", "/verif/tools/seeded_baseline.py"], check=True, stdout=subprocess.DEVNULL)
baseline = json.loads(base_file.read_text())
BASE_COMMITS = ["eeb141a", "51ed23f", "2c61668", "b59310b", "8fb63a3", "1e5babd"]
_lock = threading.Lock()
_wt_lock = threading.Lock()


def baseline_for(full):
    with _lock:
        f = Path(f"/tmp/vwt_baseline_{full[:10]}.json")
        if not f.exists():
            subprocess.run(["/venv/bin/python", "/verif/tools/seeded_baseline.py", full], check=True, stdout=subprocess.DEVNULL)
        return json.loads(f.read_text())


CODE = ("import sys, json; sys.path.insert(0,'/verif'); from sa.run import run_property; from sa.model import AnalysisError\n"
        "try:\n    code, rep = run_property('{pid}', 'quick', quiet=True, write=False)\n    kn, new = rep.split_known()\n"
        "    print('RESULT', json.dumps([code, [f.key for f in new]]))\nexcept AnalysisError as e:\n"
        "    print('RESULT', json.dumps([2, ['ANALYSIS-ERROR: ' + str(e)[:300]]]))")


def one(d: Path):
    name = "b_" + d.parent.name + "_" + d.name
    wt = Path("/tmp/vwt") / name
    wt.parent.mkdir(exist_ok=True)
    with _wt_lock:  # git's worktree bookkeeping is not safe against concurrent add/remove
        _git_wt("remove", "--force", str(wt))
        _git_wt("add", "-q", "--detach", str(wt), "HEAD", check=True)
    try:
        r = subprocess.run(["git", "-C", str(wt), "apply", "--whitespace=nowarn", str((d / "patch.diff").resolve())], capture_output=True, text=True)
        base, extra = baseline, {}
        if r.returncode != 0:
            # a later repair in /repo touched the same lines: evaluate on the commit the refactoring was written for
            for cand in BASE_COMMITS:
                subprocess.run(["git", "-C", str(wt), "checkout", "-q", "--detach", cand], check=True)
                r = subprocess.run(["git", "-C", str(wt), "apply", "--whitespace=nowarn", str((d / "patch.diff").resolve())], capture_output=True, text=True)
                if r.returncode == 0:
                    full = subprocess.run(["git", "-C", str(wt), "rev-parse", "HEAD"], capture_output=True, text=True).stdout.strip()
                    base, extra = baseline_for(full), {"evaluated_on_commit": full[:10]}
                    break
        if r.returncode != 0:
            return name, {"applies": False, "err": r.stderr[-200:]}
        fired = {}
        for pid in [f"C{i:02d}" for i in range(1, 21)]:
            p = subprocess.run(["/venv/bin/python", "-c", CODE.replace("{pid}", pid)], capture_output=True, text=True, env=dict(os.environ, VERIF_REPO=str(wt)), cwd="/verif")
            line = next((l for l in p.stdout.splitlines() if l.startswith("RESULT")), None)
            code, keys = json.loads(line[7:]) if line else (3, ["CRASH " + p.stderr[-300:]])
            newk = [k for k in keys if k not in base.get(pid, [])]
            if code != 0 and newk:
                fired[pid] = newk[:6]
        return name, dict({"applies": True, "fired": fired}, **extra)
    finally:
        with _wt_lock:
            _git_wt("remove", "--force", str(wt))


dirs = [Path(a) for a in sys.argv[1:]]
with ThreadPoolExecutor(8) as ex:
    for name, res in ex.map(one, dirs):
        print(name, json.dumps(res))
        (Path("/tmp/vwt") / (name + ".json")).write_text(json.dumps(res))
