#!/venv/bin/python
"""Write one prompt file per property for a round of independent breaking-change sub-agents.

usage: gen_seed_prompts.py <round> <first_change_no>      e.g.  gen_seed_prompts.py 5 7
Output: /tmp/wt_out/<PROP>/PROMPT.md (outside /verif; the agent sees the property record and one-line summaries of the
changes already known for it, nothing else from /verif).
"""
import json, sys
from pathlib import Path

rnd, first = sys.argv[1], int(sys.argv[2])
only = next((a.split("=", 1)[1].split(",") for a in sys.argv if a.startswith("--props=")), None)
focus = next((a.split("=", 1)[1] for a in sys.argv if a.startswith("--focus=")), "")
props = [json.loads(l) for l in open("/verif/properties.jsonl")]
props = [p for p in props if only is None or p["id"] in only]
for p in props:
    pid = p["id"]
    earlier = []
    for d in sorted(Path("/verif/seeded").glob(pid + "-*")):
        m = json.loads((d / "meta.json").read_text())
        files = ", ".join(m.get("files_touched", [])[:3])
        earlier.append(f"- ({files}) " + " ".join(m.get("summary", "").split())[:330])
    out = Path(f"/tmp/wt_out/{pid}")
    out.mkdir(parents=True, exist_ok=True)
    a, b = first, first + 1
    text = f"""# Task: two realistic changes that break one property of pixee/codemodder-python

You work ONLY in the scratch git worktree `/tmp/wt/{pid}` (a checkout of pixee/codemodder-python; sources under `src/`, tests
under `tests/`). Do not read or write `/repo` or `/verif`. Write your results under `/tmp/wt_out/{pid}/`.
Python: `/venv/bin/python` (has the repo's dependencies; run with `PYTHONPATH=/tmp/wt/{pid}/src` so that YOUR worktree's sources are
imported, not the installed ones). The real CLI (there is no `__main__`, so `-m codemodder` does not work): `PYTHONPATH=/tmp/wt/{pid}/src PATH=/venv/bin:$PATH /venv/bin/python -c "import sys; from codemodder.codemodder import main; sys.argv=['codemodder', '<dir>', '--codemod-include', '<id>', '--output', 'out.json']; main()"`
(semgrep works offline). No network.

## The property (this is all you are given)

```json
{json.dumps(p, indent=1)}
```

## What to produce

Two *independent* changes to the code under `src/` (change {a} and change {b}), each of which
1. looks like a plausible commit a maintainer could make (a refactoring, optimisation, small feature, robustness tweak, tidy-up) —
   not sabotage, no dead code, no comments pointing at the problem;
2. still compiles/imports, and keeps the existing test suite's set of passing tests unchanged (run
   `cd /tmp/wt/{pid} && PYTHONPATH=/tmp/wt/{pid}/src /venv/bin/python -m pytest -q -p no:cacheprovider --timeout=900 -x -q tests` or at
   least every test file touching the code you changed, then the full suite once per change; about 500 tests fail/skip on the pristine
   tree already because `semgrep` is not on PATH for them — compare the set of passing tests with the pristine tree, not the counts
   with zero);
3. BREAKS the property above for some input — but only when something specific happens: an unusual input shape, a multi-step
   sequence of operations, a particular combination of options, a fault at a particular point, a particular ordering/interleaving, or
   two cooperating sites that each look fine alone. Ordinary use (and the existing tests) must not expose it at once;
4. comes with a demonstration `demo.py` (a small program, exit code 0 = property holds, 1 = property broken; it may run the real CLI on a
   temp project it creates, or call the public classes) that FAILS (exit 1) with the change and PASSES (exit 0) on the pristine tree.
   The demo must take the source tree from `PYTHONPATH` (do not hard-code `/tmp/wt/{pid}` inside it) and clean up its temp files.

Changes already known for this property — do NOT repeat their mechanism or their code site; look for a *different* clause of the
property, a different file/function, a different kind of fault:

{chr(10).join(earlier)}

{focus}

Prefer sites and mechanisms that are far from these: other codemods, other helper layers (result parsing, file selection, diffing,
dependency management, CLI, report building, pipelines), other clauses of the statement. Subtle value-level slips are welcome, and so
are structural ones (a guard moved, a call reordered, state shared, a branch merged).

## Deliverables (exactly this layout)

For n in {{{a}, {b}}}: `/tmp/wt_out/{pid}/change<n>/patch.diff` (output of `git -C /tmp/wt/{pid} diff` for that change alone, relative to
the pristine HEAD; must apply with `git apply` on a clean checkout), `/tmp/wt_out/{pid}/change<n>/demo.py`, and
`/tmp/wt_out/{pid}/change<n>/meta.json` with keys: `property` ("{pid}"), `summary` (what the change is and how it breaks the property),
`what_it_needs_to_manifest`, `files_touched` (list), `how_to_run_demo`, `tests_run` (what you ran and the outcome).
Make change {a}, save its patch, `git -C /tmp/wt/{pid} checkout -- .` (and remove untracked files you added), then make change {b} from the
pristine tree again. Leave the worktree pristine at the end. Verify each patch with `git apply --check` on the clean worktree, and
verify each demo both ways before you finish. Your final message: two lines, one per change, saying what it is.
"""
    (out / "PROMPT.md").write_text(text)
    print(pid, len(earlier), "earlier changes")
