#!/venv/bin/python
"""Mechanised behaviour-preserving variants of the whole tree, to test the checks for dependence on spelling.

usage: alpha_rename.py <src-tree> <dst-tree> <mode>
  mode = unparse   every file under src/ is re-rendered by ast.unparse (layout, comments, quoting change; program identical)
         locals    + every purely local variable of every function is renamed (`x` -> `x_lv`)
         params    + locals, and the parameters of private functions / methods whose every call in the repo is positional
                   (hook methods of libcst classes excluded: libcst calls them positionally, so they are renamed too)

The renaming is deliberately conservative (a name is left alone whenever a nested scope binds it, it is declared global / nonlocal,
it is used in a class body nested in the function, or it appears in a string handed to eval/locals() -- none in this repo).
The result must keep the test suite's passing set (tools/baseline_check.py <dst>) and every /verif check must report exactly what it
reports on the unmodified tree (VERIF_REPO=<dst> sa/run.py ...).
"""
import ast, shutil, sys
from pathlib import Path

src, dst, mode = Path(sys.argv[1]), Path(sys.argv[2]), sys.argv[3]
SUFFIX = "_lv"


def bound_names_in_scope(fn):
    """names bound directly in the function's own scope (not parameters), and names a nested scope binds itself"""
    own, nested_bound, blocked = set(), set(), set()

    def targets(t):
        if isinstance(t, ast.Name):
            yield t.id
        elif isinstance(t, (ast.Tuple, ast.List)):
            for e in t.elts:
                yield from targets(e)
        elif isinstance(t, ast.Starred):
            yield from targets(t.value)

    def walk(node, depth):
        for ch in ast.iter_child_nodes(node):
            if isinstance(ch, (ast.FunctionDef, ast.AsyncFunctionDef, ast.Lambda)):
                a = ch.args
                for p in a.posonlyargs + a.args + a.kwonlyargs + ([a.vararg] if a.vararg else []) + ([a.kwarg] if a.kwarg else []):
                    nested_bound.add(p.arg)
                if not isinstance(ch, ast.Lambda):
                    (own if depth == 0 else nested_bound).add(ch.name)
                    blocked.add(ch.name)
                # bindings inside the nested function belong to it
                for n in ast.walk(ch):
                    if isinstance(n, ast.Name) and isinstance(n.ctx, (ast.Store, ast.Del)):
                        nested_bound.add(n.id)
                    elif isinstance(n, (ast.Global, ast.Nonlocal)):
                        blocked.update(n.names)
                    elif isinstance(n, ast.ExceptHandler) and n.name:
                        nested_bound.add(n.name)
                    elif isinstance(n, (ast.MatchAs, ast.MatchStar)) and n.name:
                        nested_bound.add(n.name)
                    elif isinstance(n, ast.MatchMapping) and n.rest:
                        nested_bound.add(n.rest)
                continue
            if isinstance(ch, ast.ClassDef):
                blocked.add(ch.name)
                for n in ast.walk(ch):
                    if isinstance(n, ast.Name):
                        blocked.add(n.id)
                continue
            if isinstance(ch, (ast.ListComp, ast.SetComp, ast.DictComp, ast.GeneratorExp)):
                # comprehension targets are local to the comprehension: treat like a nested scope
                for g in ch.generators:
                    nested_bound.update(targets(g.target))
                walk(ch, depth + 1)
                continue
            if isinstance(ch, ast.Name) and isinstance(ch.ctx, (ast.Store, ast.Del)):
                (own if depth == 0 else nested_bound).add(ch.id)
            elif isinstance(ch, (ast.Global, ast.Nonlocal)):
                blocked.update(ch.names)
            elif isinstance(ch, ast.ExceptHandler) and ch.name:
                blocked.add(ch.name)  # plain string, not a Name node: leave alone
            elif isinstance(ch, (ast.MatchAs, ast.MatchStar)) and ch.name:
                blocked.add(ch.name)
            elif isinstance(ch, ast.MatchMapping) and ch.rest:
                blocked.add(ch.rest)
            elif isinstance(ch, (ast.Import, ast.ImportFrom)):
                for al in ch.names:
                    blocked.add((al.asname or al.name).split(".")[0])
            elif isinstance(ch, ast.NamedExpr) and depth > 0 and isinstance(ch.target, ast.Name):
                blocked.add(ch.target.id)  # walrus inside a comprehension binds in the enclosing function: leave alone
            walk(ch, depth)

    walk(fn, 0)
    a = fn.args
    params = {p.arg for p in a.posonlyargs + a.args + a.kwonlyargs + ([a.vararg] if a.vararg else []) + ([a.kwarg] if a.kwarg else [])}
    fn._scope_sets = (own, nested_bound, blocked)
    return own - params - nested_bound - blocked, params


def scope_sets(fn):
    return fn._scope_sets


class Renamer(ast.NodeTransformer):
    def __init__(self, names):
        self.names = names

    def visit_Name(self, n):
        if n.id in self.names:
            n.id = n.id + SUFFIX
        return n


def top_functions(tree):
    """every function / method that is not nested inside another function"""
    out = []

    def rec(node):
        for ch in ast.iter_child_nodes(node):
            if isinstance(ch, (ast.FunctionDef, ast.AsyncFunctionDef)):
                out.append(ch)
            elif isinstance(ch, (ast.ClassDef, ast.If, ast.Try, ast.With)):
                rec(ch)

    rec(tree)
    return out


def keyword_names():
    """every keyword-argument name used in any call under src/ or tests/ (a parameter with such a name is left alone)"""
    kw = set()
    for root in (src / "src", src / "tests", src / "integration_tests"):
        for f in root.rglob("*.py"):
            try:
                t = ast.parse(f.read_text())
            except SyntaxError:
                continue
            for n in ast.walk(t):
                if isinstance(n, ast.keyword) and n.arg:
                    kw.add(n.arg)
                elif isinstance(n, ast.Constant) and isinstance(n.value, str) and n.value.isidentifier():
                    kw.add(n.value)  # names that travel as strings (getattr, **{...}, fixtures)
    return kw


KW = keyword_names() if mode.startswith("params") else set()
HOOK_PREFIXES = ("visit_", "leave_", "on_visit", "on_leave")


def renamable_params(fn, nested_bound_or_blocked):
    if fn.name.startswith("__") or (mode == "params-nohooks" and fn.name.startswith(HOOK_PREFIXES)):
        return set()
    if any(isinstance(d, ast.Name) and d.id in ("property", "fixture") or isinstance(d, ast.Attribute) and d.attr in ("fixture", "setter") for d in fn.decorator_list):
        return set()
    a = fn.args
    ps = [p.arg for p in a.posonlyargs + a.args]
    return {p for p in ps if p not in ("self", "cls", "mcs") and p not in KW and not p.startswith("_") and p not in nested_bound_or_blocked}


class ParamRenamer(ast.NodeTransformer):
    def __init__(self, names, top):
        self.names, self.top = names, top

    def visit_Name(self, n):
        if n.id in self.names:
            n.id = n.id + "_pv"
        return n

    def visit_arg(self, n):
        return n


shutil.copytree(src, dst, ignore=shutil.ignore_patterns(".git", "__pycache__", "*.pyc", ".pytest_cache"), symlinks=True)
n_files = n_fn = n_names = n_params = 0
for f in sorted((dst / "src").rglob("*.py")):
    text = f.read_text()
    try:
        tree = ast.parse(text)
    except SyntaxError:
        continue
    if mode in ("locals", "params", "params-nohooks"):
        for fn in top_functions(tree):
            all_names = {n.id for n in ast.walk(fn) if isinstance(n, ast.Name)} | {a.arg for a in ast.walk(fn) if isinstance(a, ast.arg)}
            names, params = bound_names_in_scope(fn)
            names = {n for n in names if n + SUFFIX not in all_names and not n.startswith("__")}
            # a keyword argument `f(x=x)` is an ast.keyword (string) + Name: only the Name is renamed, which is what we want
            if names:
                Renamer(names).visit(fn)
                n_fn += 1
                n_names += len(names)
            if mode.startswith("params"):
                own, nested_bound, blocked = scope_sets(fn)
                ps = {p for p in renamable_params(fn, nested_bound | blocked) if p + "_pv" not in all_names}
                if ps:
                    ParamRenamer(ps, fn).visit(fn)
                    for a in fn.args.posonlyargs + fn.args.args:
                        if a.arg in ps:
                            a.arg = a.arg + "_pv"
                    n_params += len(ps)
    if mode == "ifswap":
        # `if A: X else: Y`  ->  `if not A: Y else: X`  (no elif chain on either side; inside functions only)
        class Swap(ast.NodeTransformer):
            def visit_If(self, n):
                self.generic_visit(n)
                if n.orelse and not (len(n.orelse) == 1 and isinstance(n.orelse[0], ast.If)):
                    global n_names
                    n_names += 1
                    t = n.test.operand if isinstance(n.test, ast.UnaryOp) and isinstance(n.test.op, ast.Not) else ast.UnaryOp(op=ast.Not(), operand=n.test)
                    return ast.If(test=t, body=n.orelse, orelse=n.body)
                return n
        for fn in top_functions(tree):
            Swap().visit(fn)
        ast.fix_missing_locations(tree)
    if mode in ("elsewrap", "unelse", "andsplit"):
        def exits(body):
            return bool(body) and isinstance(body[-1], (ast.Return, ast.Raise, ast.Continue, ast.Break))

        def blocks(node):
            out = []

            def rec(stmts):
                out.append(stmts)
                for st in stmts:
                    if isinstance(st, (ast.FunctionDef, ast.AsyncFunctionDef, ast.ClassDef)):
                        continue
                    for field in ("body", "orelse", "finalbody"):
                        sub = getattr(st, field, None)
                        if isinstance(sub, list) and sub and isinstance(sub[0], ast.stmt):
                            rec(sub)
                    if isinstance(st, ast.Try):
                        for h in st.handlers:
                            rec(h.body)
                    if isinstance(st, ast.Match):
                        for c in st.cases:
                            rec(c.body)

            rec(node.body)
            return out

        for fn in top_functions(tree):
            changed = True
            while changed:
                changed = False
                for stmts in blocks(fn):
                    for i, st in enumerate(stmts):
                        if mode == "elsewrap" and isinstance(st, ast.If) and not st.orelse and exits(st.body) and i + 1 < len(stmts):
                            # `if c: ...return` + rest  ->  `if c: ...return else: rest`
                            st.orelse = stmts[i + 1:]
                            del stmts[i + 1:]
                            n_names += 1
                            changed = True
                            break
                        if mode == "unelse" and isinstance(st, ast.If) and st.orelse and exits(st.body) and not (len(st.orelse) == 1 and isinstance(st.orelse[0], ast.If)):
                            # `if c: ...return else: rest`  ->  `if c: ...return` + rest
                            rest = st.orelse
                            st.orelse = []
                            stmts[i + 1:i + 1] = rest
                            n_names += 1
                            changed = True
                            break
                        if mode == "andsplit" and isinstance(st, ast.If) and not st.orelse and isinstance(st.test, ast.BoolOp) and isinstance(st.test.op, ast.And):
                            # `if a and b: X`  ->  `if a: if b: X`
                            first, others = st.test.values[0], st.test.values[1:]
                            inner = ast.If(test=others[0] if len(others) == 1 else ast.BoolOp(op=ast.And(), values=others), body=st.body, orelse=[])
                            st.test, st.body = first, [inner]
                            n_names += 1
                            changed = True
                            break
                    if changed:
                        break
        ast.fix_missing_locations(tree)
    if mode == "rettemp":
        # `return E`  ->  `result_rt = E; return result_rt`   (E not a bare name / constant)
        class Ret(ast.NodeTransformer):
            def visit_FunctionDef(self, n):
                return n  # nested functions left alone (handled when they are top functions of a class)
            visit_AsyncFunctionDef = visit_Lambda = visit_FunctionDef

            def visit_Return(self, n):
                global n_names
                if n.value is None or isinstance(n.value, (ast.Name, ast.Constant)):
                    return n
                n_names += 1
                return [ast.Assign(targets=[ast.Name(id="result_rt", ctx=ast.Store())], value=n.value, lineno=n.lineno), ast.Return(value=ast.Name(id="result_rt", ctx=ast.Load()))]
        for fn in top_functions(tree):
            if any(isinstance(x, (ast.Yield, ast.YieldFrom)) for x in ast.walk(fn)):
                continue
            fn.body = [y for st in fn.body for y in (lambda r: r if isinstance(r, list) else [r])(Ret().visit(st))]
        ast.fix_missing_locations(tree)
    new = ast.unparse(tree) + "\n"
    f.write_text(new)
    n_files += 1
print(f"{mode}: {n_files} files rewritten, {n_names} local names renamed in {n_fn} functions, {n_params} parameters renamed")
