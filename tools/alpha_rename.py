#!/venv/bin/python
"""Write a mechanically rewritten (behaviour-preserving) copy of the repository to a scratch directory.

usage: alpha_rename.py <src-tree> <dst-tree> <mode>      mode: one of sa/metamorph.py MODES
The rewrites themselves live in /verif/sa/metamorph.py (the thorough tier applies them in memory); this tool exists to validate them
outside the checker: the rewritten tree must keep the test suite's passing set, and `VERIF_REPO=<dst> sa/run.py <ID>` must report what
it reports on the unmodified tree.
"""
import shutil, sys
from pathlib import Path

sys.path.insert(0, str(Path(__file__).resolve().parent.parent))
from sa.metamorph import tree_overlay  # noqa: E402

src, dst, mode = Path(sys.argv[1]), Path(sys.argv[2]), sys.argv[3]
shutil.copytree(src, dst, ignore=shutil.ignore_patterns(".git", "__pycache__", "*.pyc", ".pytest_cache"), symlinks=True)
overlay, stats = tree_overlay(dst, "src", mode)
for rel, text in overlay.items():
    (dst / "src" / rel).write_text(text, encoding="utf-8")
print(f"{mode}: {stats['files']} files rewritten, {stats['rewrites']} rewrites")
