#!/venv/bin/python
"""Confirm a seeded change (patch.diff + demo) in a scratch worktree and run the /verif checks against it.

usage: verify_seeded.py <change_dir> <property> <name> [--no-suite]
Writes <change_dir>/verification.json. The worktree lives under /tmp/vwt and is removed afterwards.
"""
import json, os, subprocess, sys, shutil, tempfile, xml.etree.ElementTree as ET
from pathlib import Path


def _git_wt(*args, check=False):
    """git worktree add/remove under a machine-wide file lock (git's worktree bookkeeping is not safe against concurrent add/remove)"""
    import fcntl
    os.makedirs("/tmp/vwt", exist_ok=True)
    with open("/tmp/vwt/.wtlock", "w") as lk:
        fcntl.flock(lk, fcntl.LOCK_EX)
        return subprocess.run(["git", "-C", "/repo", "worktree", *args], capture_output=True, text=True, check=check)


change_dir = Path(sys.argv[1]); prop = sys.argv[2]; name = sys.argv[3]
# commits of /repo the stored changes were written for (newest first): round 3, rounds 1+2, before the lazy-logging repair
BASE_COMMITS = ["eeb141a", "51ed23f", "2c61668", "8fb63a3", "1e5babd", "cc14e90", "d3ce8dc"]
no_suite = "--no-suite" in sys.argv
recheck = "--recheck" in sys.argv and (change_dir / "verification.json").exists()
wt = Path("/tmp/vwt") / name
wt.parent.mkdir(exist_ok=True)
if wt.exists():
    _git_wt("remove", "--force", str(wt))
_git_wt("add", "-q", "--detach", str(wt), "HEAD", check=True)
env = dict(os.environ, PYTHONPATH=str(wt / "src"), PATH="/venv/bin:" + os.environ["PATH"])
env.pop("VERIF_REPO", None)
out = {"property": prop, "name": name}
if recheck:
    out = json.loads((change_dir / "verification.json").read_text())
    no_suite = True
try:
    patch = change_dir / "patch.diff"
    r = subprocess.run(["git", "-C", str(wt), "apply", "--whitespace=nowarn", str(patch)], capture_output=True, text=True)
    base_head = subprocess.run(["git", "-C", "/repo", "rev-parse", "HEAD"], capture_output=True, text=True).stdout.strip()
    if r.returncode != 0:
        # later repairs in /repo touched the same lines: evaluate the change on the commit it was written for
        for cand in BASE_COMMITS:
            subprocess.run(["git", "-C", str(wt), "checkout", "-q", "--detach", cand], check=True)
            r = subprocess.run(["git", "-C", str(wt), "apply", "--whitespace=nowarn", str(patch)], capture_output=True, text=True)
            if r.returncode == 0:
                base_head = subprocess.run(["git", "-C", str(wt), "rev-parse", "HEAD"], capture_output=True, text=True).stdout.strip()
                out["evaluated_on_commit"] = base_head[:10]
                break
    out["applies"] = r.returncode == 0
    if r.returncode != 0:
        out["apply_error"] = r.stderr[-500:]
        raise SystemExit
    demo = next((change_dir / n for n in ("demo.py", "test_demo.py") if (change_dir / n).exists()), None)
    def run_demo():
        if demo.name.startswith("test_"):
            cmd = ["/venv/bin/python", "-m", "pytest", "-q", "-p", "no:cacheprovider", str(demo)]
        else:
            cmd = ["/venv/bin/python", str(demo)]
        p = subprocess.run(cmd, cwd=str(wt), env=env, capture_output=True, text=True, timeout=1500)
        return p.returncode, (p.stdout + p.stderr)[-600:]
    if not recheck:
        out["demo_with_patch_rc"], out["demo_with_patch_tail"] = run_demo()
    # compile check
    c = subprocess.run(["/venv/bin/python", "-m", "compileall", "-q", str(wt / "src")], capture_output=True, text=True)
    out["compiles"] = c.returncode == 0
    if not no_suite:
        b = json.load(open("/root/.vp/BASELINE.json"))
        junit = tempfile.mktemp(suffix=".xml", dir="/tmp")
        cmd = b["cmd"].replace("cd /repo", f"cd {wt}").replace("<file>", junit)
        suite_env = dict(env, PATH=os.environ["PATH"])  # like the baseline: no semgrep binary on PATH
        subprocess.run(cmd, shell=True, env=suite_env, stdout=subprocess.DEVNULL, stderr=subprocess.DEVNULL)
        passed = set()
        for tc in ET.parse(junit).getroot().iter("testcase"):
            if not any(ch.tag in ("failure", "error", "skipped") for ch in tc):
                passed.add(f"{tc.get('classname')}::{tc.get('name')}")
        os.unlink(junit)
        missing = sorted(set(b["stable_pass"]) - passed)
        out["suite_missing"] = missing[:10]
        out["suite_ok"] = not missing
    # /verif checks against the patched tree (relative to what they report on the unpatched HEAD)
    head = base_head
    base_file = Path(f"/tmp/vwt_baseline_{head[:10]}.json")
    if not base_file.exists():
        subprocess.run(["/venv/bin/python", "/verif/tools/seeded_baseline.py", head], stdout=subprocess.DEVNULL, stderr=subprocess.DEVNULL)
    baseline = json.loads(base_file.read_text()) if base_file.exists() else {}
    fired = {}
    own_keys_unsubtracted = []
    venv = dict(os.environ, VERIF_REPO=str(wt))
    for pid in [f"C{i:02d}" for i in range(1, 21)]:
        if not Path(f"/verif/sa/rules/{pid.lower()}.py").exists():
            continue
        p = subprocess.run(["/venv/bin/python", "-c", f"import sys, json; sys.path.insert(0,'/verif'); from sa.run import run_property; from sa.model import AnalysisError\ntry:\n    code, rep = run_property('{pid}', 'quick', quiet=True, write=False)\n    kn, new = rep.split_known()\n    print('RESULT', json.dumps([code, [f.key for f in new]]))\nexcept AnalysisError as e:\n    print('RESULT', json.dumps([2, ['ANALYSIS-ERROR: ' + str(e)[:200]]]))"],
                           capture_output=True, text=True, env=venv, cwd="/verif")
        line = next((l for l in p.stdout.splitlines() if l.startswith("RESULT")), None)
        code, keys = json.loads(line[7:]) if line else (3, ["CRASH " + p.stderr[-200:]])
        newk = [k for k in keys if k not in baseline.get(pid, [])]
        if pid == prop:
            own_keys_unsubtracted = list(keys)
        if code != 0 and newk:
            fired[pid] = {"exit": code, "keys": newk[:8]}
    out["checks_fired"] = fired
    out["caught_by_own_property"] = prop in fired
    if prop not in fired and out.get("evaluated_on_commit"):
        # evaluated on an older commit that still had a (since repaired) defect in the same construct: the check reports the patched tree,
        # but under a key the older commit's own baseline already contains; say so instead of counting it as missed
        touched = {l[6:].strip()[len("src/"):-3].replace("/", ".") for l in patch.read_text().splitlines() if l.startswith("+++ b/src/") and l.strip().endswith(".py")}
        same = [k for k in own_keys_unsubtracted if any(("|" + t + ".") in k or ("|" + t + "|") in k for t in touched)]
        if same:
            out["caught_by_own_property"] = True
            out["own_via_key_already_in_base_commit_baseline"] = same[:4]
    subprocess.run(["git", "-C", str(wt), "checkout", "--", "."], check=True)
    subprocess.run(["git", "-C", str(wt), "clean", "-fdq"], check=True)
    if not recheck:
        out["demo_without_patch_rc"], out["demo_without_patch_tail"] = run_demo()
finally:
    _git_wt("remove", "--force", str(wt))
    (change_dir / "verification.json").write_text(json.dumps(out, indent=1))
    print(json.dumps({k: v for k, v in out.items() if "tail" not in k}, indent=None)[:900])
