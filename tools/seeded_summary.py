#!/venv/bin/python
import json, glob, sys
rows = []
for f in sorted(glob.glob('/tmp/wt_out/C*/change*/verification.json') + glob.glob('/verif/seeded/*/verification.json')):
    d = json.load(open(f))
    fired = {k: sorted({x.split('|')[0] for x in v['keys']}) for k, v in d.get('checks_fired', {}).items()}
    sm = [m for m in d.get('suite_missing', []) if 'test_version' not in m]
    print(f"{d['name']:8} applies={d.get('applies')} demo(with/without)={d.get('demo_with_patch_rc')}/{d.get('demo_without_patch_rc')} suite_missing={sm} own={d.get('caught_by_own_property')} fired={fired}")
