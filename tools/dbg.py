#!/venv/bin/python
"""Debug aid: run one property's quick check against /repo HEAD + a patch (scratch worktree /tmp/vwt/dbg_<n>, kept until --rm).
usage: dbg.py <patch_dir> <PROP> [--show qname]   |   dbg.py --rm"""
import os, subprocess, sys, hashlib
from pathlib import Path
if sys.argv[1] == "--rm":
    for d in Path("/tmp/vwt").glob("dbg_*"):
        subprocess.run(["git", "-C", "/repo", "worktree", "remove", "--force", str(d)])
    sys.exit(0)
pd = Path(sys.argv[1]).resolve(); prop = sys.argv[2]
wt = Path("/tmp/vwt") / ("dbg_" + hashlib.md5(str(pd).encode()).hexdigest()[:8])
if not wt.exists():
    subprocess.run(["git", "-C", "/repo", "worktree", "add", "-q", "--detach", str(wt), "HEAD"], check=True)
    for cand in ["HEAD", "51ed23f", "2c61668", "b59310b", "8fb63a3", "1e5babd", "cc14e90"]:
        subprocess.run(["git", "-C", str(wt), "checkout", "-q", "--detach", cand], check=True)
        if subprocess.run(["git", "-C", str(wt), "apply", "--whitespace=nowarn", str(pd / "patch.diff")]).returncode == 0:
            print("applied on", cand); break
os.environ["VERIF_REPO"] = str(wt)
sys.path.insert(0, "/verif")
from sa.run import run_property
from sa.model import AnalysisError
if "--show" in sys.argv:
    import ast
    from sa.engine import Ctx
    c = Ctx()
    q = sys.argv[sys.argv.index("--show") + 1]
    print(ast.unparse(c.prog.functions[q].node))
    sys.exit(0)
try:
    code, rep = run_property(prop, "quick", quiet=True, write=False)
    kn, new = rep.split_known()
    for f in new:
        print(f.key, "::", f.message[:300] if hasattr(f, "message") else "")
    print("exit", code)
except AnalysisError as e:
    print("ANALYSIS-ERROR", e)
