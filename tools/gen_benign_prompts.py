#!/venv/bin/python
"""Write one prompt file per property for a round of independent *behaviour-preserving refactoring* sub-agents.

usage: gen_benign_prompts.py
Output: /tmp/wtb_out/<PROP>/PROMPT.md (outside /verif; the agent sees the property record and which functions were refactored
before, nothing else from /verif).  The three new patches are numbered after the ones already stored for the property.
"""
import json
from pathlib import Path

props = [json.loads(l) for l in open("/verif/properties.jsonl")]
for p in props:
    pid = p["id"]
    earlier, nums = [], []
    for d in sorted(Path("/verif/benign").glob(pid + "-benign*")):
        m = json.loads((d / "meta.json").read_text())
        nums.append(int(d.name.split("benign")[1]))
        files = ", ".join(m.get("files_touched", [])[:3])
        earlier.append(f"- ({files}) " + " ".join(str(m.get("kind", "")).split())[:220])
    first = max(nums, default=0) + 1
    ns = [first, first + 1, first + 2]
    out = Path(f"/tmp/wtb_out/{pid}")
    out.mkdir(parents=True, exist_ok=True)
    text = f"""# Task: three behaviour-preserving refactorings of the code behind one property of pixee/codemodder-python

You work ONLY in the scratch checkout `/tmp/wtb/{pid}` (pixee/codemodder-python; sources under `src/`, tests under `tests/`). Do not read or
write `/repo` or `/verif`. Write your results under `/tmp/wtb_out/{pid}/`. Python: `/venv/bin/python`, run with
`PYTHONPATH=/tmp/wtb/{pid}/src` so YOUR sources are imported. The CLI:
`PYTHONPATH=/tmp/wtb/{pid}/src PATH=/venv/bin:$PATH /venv/bin/python -m codemodder <dir> --codemod-include <id> --output out.json`. No network.

## The property

```json
{json.dumps(p, indent=1)}
```

## What to produce

Three *independent* refactorings (numbers {ns[0]}, {ns[1]}, {ns[2]}) of code the property is anchored in (see `anchors`), the kind a maintainer
does all the time, that change NOTHING about behaviour — the property must hold exactly as before and every output (files written, report,
exit status, logs aside) must be identical for every input:
extract / inline a method or function, move a helper to another module, comprehension <-> loop, early return <-> nested if, `match` <->
if-chain <-> dispatch dict, rename locals / private helpers / parameters (keep public API and anything tests import), positional <->
keyword arguments, split or merge functions, replace an idiom by an equivalent one (`a |= b` vs update, `sorted()` vs `.sort()`,
walrus, conditional expression, try/else, context managers, dataclass field defaults with default_factory), hoist a constant, reorder
independent statements, introduce a small private class or NamedTuple, generalise a helper with a parameter. Make each refactoring
*substantial* (touch the core function(s) of the mechanism, 15-80 changed lines), not cosmetic, and combine 2-3 of the moves above in one
patch. Each must keep the existing suite's set of passing tests unchanged (about 500 tests fail/skip on the pristine tree already because
`semgrep` is not on PATH for them — compare sets of passing tests, not counts) and, where cheap, check with the real CLI on a couple of
inputs that outputs are byte-identical before/after.

Refactorings already made for this property — choose DIFFERENT functions / files or different moves:

{chr(10).join(earlier)}

## Deliverables

For n in {ns}: `/tmp/wtb_out/{pid}/benign<n>/patch.diff` (`git -C /tmp/wtb/{pid} diff` of that refactoring alone against pristine HEAD; must
apply with `git apply` on a clean checkout) and `/tmp/wtb_out/{pid}/benign<n>/meta.json` with keys `property` ("{pid}"), `kind`, `summary`,
`files_touched` (list), `why_behaviour_is_preserved`, `tests_run`. Reset the checkout (`git checkout -- .`, remove untracked files) between
refactorings and leave it pristine at the end. Final message: three lines, one per refactoring.
"""
    (out / "PROMPT.md").write_text(text)
    print(pid, ns)
