#!/venv/bin/python
"""Store a round of confirmed seeded changes: re-run the current checks against each (verify_seeded --recheck), combine with the
'as built' verdict computed from the /verif snapshot that preceded the round's new rules (tools/asbuilt.py -> asbuilt.json), write
/verif/seeded/<PROP>-<n>/ and print the DESIGN table rows.

usage: finalize_round.py <round-label> [--no-recheck]
"""
import json, subprocess, sys, shutil
from concurrent.futures import ThreadPoolExecutor
from pathlib import Path

label = sys.argv[1]
dirs = sorted(d for d in Path("/tmp/wt_out").glob("C*/change*") if d.is_dir() and (d / "verification.json").exists())


def recheck(d: Path):
    prop = d.parent.name
    n = d.name.replace("change", "")
    subprocess.run(["/venv/bin/python", "/verif/tools/verify_seeded.py", str(d), prop, f"{prop}-{n}", "--recheck"], capture_output=True, text=True)
    return d


if "--no-recheck" not in sys.argv:
    with ThreadPoolExecutor(6) as ex:
        list(ex.map(recheck, dirs))

rows = []
for d in dirs:
    prop = d.parent.name
    n = d.name.replace("change", "")
    v = json.loads((d / "verification.json").read_text())
    m = json.loads((d / "meta.json").read_text())
    ab = json.loads((d / "asbuilt.json").read_text()) if (d / "asbuilt.json").exists() else None
    ok = v.get("applies") and v.get("compiles") and v.get("demo_with_patch_rc") not in (0, None) and v.get("demo_without_patch_rc") == 0 and not [x for x in v.get("suite_missing", []) if "test_version" not in x]
    if not ok:
        print("NOT CONFIRMED", d, {k: v.get(k) for k in ("applies", "compiles", "demo_with_patch_rc", "demo_without_patch_rc", "suite_missing")})
        continue
    fired = {k: sorted({x.split("|")[0] for x in dd["keys"]}) for k, dd in v.get("checks_fired", {}).items()}
    own_now = prop in fired
    if ab is None:
        when = "unknown (no as-built run)"
    elif prop in ab:
        when = "as built" + (" (fail-closed ANALYSIS-ERROR)" if any(x.startswith("ANALYSIS-ERROR") for x in ab[prop]) else "")
    elif ab:
        nb = "; ".join(f"{k} {', '.join(r for r in rs if not r.startswith('ANALYSIS-ERROR')) or 'fail-closed'}" for k, rs in sorted(ab.items()))
        when = (f"as built only by a neighbouring check ({nb}); " + ("rule then shared / added for the own property" if own_now else "own property still silent"))
    else:
        when = "after strengthening (" + label + ": missed by the rules as built)" if own_now else ("missed" if not fired else "missed by the own property's check")
    dst = Path(f"/verif/seeded/{prop}-{n}")
    dst.mkdir(parents=True, exist_ok=True)
    shutil.copy(d / "patch.diff", dst / "patch.diff")
    demo = next(p for p in (d / "demo.py", d / "test_demo.py") if p.exists())
    shutil.copy(demo, dst / demo.name)
    m["id"] = f"{prop}-{n}"
    m["author"] = "independent sub-agent given only the property text, the summaries of earlier changes and a scratch checkout"
    m["confirmed_by_me"] = {k: v.get(k) for k in ("applies", "compiles", "demo_with_patch_rc", "demo_without_patch_rc", "suite_missing")}
    m["checks"] = {"caught_by_own_property_check": own_now, "fired": fired, "as_built": ab}
    m["detected_when"] = when
    (dst / "meta.json").write_text(json.dumps(m, indent=1))
    summ = " ".join(m.get("summary", "").split())[:110]
    fs = "; ".join(f"{k} {', '.join(rs)}" for k, rs in sorted(fired.items())) or "—"
    rows.append(f"| {prop}-{n} | {summ}… | {fs} | {when} |")
print("\n".join(rows))
