#!/venv/bin/python
"""Store a round of behaviour-preserving refactorings: /tmp/wtb_out/<P>/benign<n>/{patch.diff,meta.json} + the verdict tools/verify_benign.py
left in /tmp/vwt/b_<P>_benign<n>.json  ->  /verif/benign/<P>-benign<n>/.   usage: store_benign.py <round label>"""
import json, shutil, sys
from pathlib import Path

label = sys.argv[1]
rows = []
for d in sorted(Path("/tmp/wtb_out").glob("C*/benign*")):
    if not (d / "patch.diff").exists() or not (d / "meta.json").exists():
        continue
    prop, n = d.parent.name, d.name
    vf = Path(f"/tmp/vwt/b_{prop}_{n}.json")
    if not vf.exists():
        continue
    v = json.loads(vf.read_text())
    m = json.loads((d / "meta.json").read_text())
    fired = {k: [x for x in ks if not ("remove_unused_imports.RemoveUnusedImports.transform_module_impl" in x and "R-NO-UNORDERED-ITER" in x)] for k, ks in v.get("fired", {}).items()}
    fired = {k: ks for k, ks in fired.items() if ks}
    m["id"] = f"{prop}-{n}"
    m["round"] = label
    m["author"] = "independent sub-agent given only the property record, the list of functions refactored before and a scratch checkout"
    m["checks_final"] = {"fired": fired, "evaluated_on_commit": v.get("evaluated_on_commit")}
    m["status"] = "silent" if not fired else "UNRESOLVED"
    dst = Path(f"/verif/benign/{prop}-{n}")
    dst.mkdir(parents=True, exist_ok=True)
    shutil.copy(d / "patch.diff", dst / "patch.diff")
    (dst / "meta.json").write_text(json.dumps(m, indent=1))
    rows.append((m["id"], m["status"], "; ".join(f"{k} {', '.join(sorted({x.split('|')[0][:60] for x in ks}))}" for k, ks in sorted(fired.items()))))
for r in rows:
    print(" | ".join(r))
print(len(rows), "stored;", sum(1 for r in rows if r[1] == "silent"), "silent")
