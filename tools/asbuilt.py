#!/venv/bin/python
"""What did the checks of an *earlier* /verif commit report for a stored change?  (the honest 'as built' column)

usage: asbuilt.py <verif_snapshot_dir> <change_dir> [...]      e.g.  asbuilt.py /tmp/verif_asbuilt /tmp/wt_out/C01/change7
The snapshot is a `git worktree` of /verif at the commit that preceded the rules written after reading the round's changes.
Prints one line per change: the property checks (of the snapshot) that report something new on the patched tree.
"""
import json, os, subprocess, sys
from concurrent.futures import ThreadPoolExecutor
from pathlib import Path


def _git_wt(*args, check=False):
    import fcntl
    os.makedirs("/tmp/vwt", exist_ok=True)
    with open("/tmp/vwt/.wtlock", "w") as lk:
        fcntl.flock(lk, fcntl.LOCK_EX)
        return subprocess.run(["git", "-C", "/repo", "worktree", *args], capture_output=True, text=True, check=check)


snap = sys.argv[1]
CODE = ("import sys, json; sys.path.insert(0,'{snap}'); from sa.run import run_property; from sa.model import AnalysisError\n"
        "try:\n    code, rep = run_property('{pid}', 'quick', quiet=True, write=False)\n    kn, new = rep.split_known()\n"
        "    print('RESULT', json.dumps([code, [f.key for f in new]]))\nexcept AnalysisError as e:\n"
        "    print('RESULT', json.dumps([2, ['ANALYSIS-ERROR: ' + str(e)[:300]]]))")


def run_checks(repo_dir):
    out = {}
    for pid in [f"C{i:02d}" for i in range(1, 21)]:
        p = subprocess.run(["/venv/bin/python", "-c", CODE.replace("{pid}", pid).replace("{snap}", snap)], capture_output=True, text=True,
                           env=dict(os.environ, VERIF_REPO=str(repo_dir)), cwd=snap)
        line = next((l for l in p.stdout.splitlines() if l.startswith("RESULT")), None)
        out[pid] = json.loads(line[7:]) if line else [3, ["CRASH " + p.stderr[-300:]]]
    return out


base_wt = Path("/tmp/vwt/asbuilt_base")
_git_wt("remove", "--force", str(base_wt))
_git_wt("add", "-q", "--detach", str(base_wt), "HEAD", check=True)
try:
    baseline = run_checks(base_wt)
finally:
    _git_wt("remove", "--force", str(base_wt))


def one(d: Path):
    name = "ab_" + d.parent.name + "_" + d.name
    wt = Path("/tmp/vwt") / name
    _git_wt("remove", "--force", str(wt))
    _git_wt("add", "-q", "--detach", str(wt), "HEAD", check=True)
    try:
        r = subprocess.run(["git", "-C", str(wt), "apply", "--whitespace=nowarn", str((d / "patch.diff").resolve())], capture_output=True, text=True)
        if r.returncode != 0:
            return name, {"applies": False}
        res = run_checks(wt)
        fired = {}
        for pid, (code, keys) in res.items():
            newk = [k for k in keys if k not in baseline[pid][1]]
            if code != 0 and newk:
                fired[pid] = sorted({k.split("|")[0] for k in newk})
        return name, fired
    finally:
        _git_wt("remove", "--force", str(wt))


dirs = [Path(a) for a in sys.argv[2:]]
with ThreadPoolExecutor(6) as ex:
    for (name, fired), d in zip(ex.map(one, dirs), dirs):
        print(name, json.dumps(fired))
        (d / "asbuilt.json").write_text(json.dumps(fired))
