#!/venv/bin/python
"""Store a confirmed seeded change: tools/store_seeded.py <PROP> <n> "<detected_when>"  (reads /tmp/wt_out/<PROP>/change<n>/)"""
import json, shutil, sys
from pathlib import Path
prop, n, when = sys.argv[1], sys.argv[2], sys.argv[3]
src = Path(f"/tmp/wt_out/{prop}/change{n}")
dst = Path(f"/verif/seeded/{prop}-{n}")
dst.mkdir(parents=True, exist_ok=True)
shutil.copy(src / "patch.diff", dst / "patch.diff")
demo = next(p for p in (src / "demo.py", src / "test_demo.py") if p.exists())
shutil.copy(demo, dst / demo.name)
m = json.loads((src / "meta.json").read_text())
v = json.loads((src / "verification.json").read_text())
m["id"] = f"{prop}-{n}"
m["author"] = "independent sub-agent given only the property text, the summaries of earlier changes and a scratch worktree"
m["confirmed_by_me"] = {k: v.get(k) for k in ("applies", "compiles", "demo_with_patch_rc", "demo_without_patch_rc", "suite_missing")}
m["checks"] = {"caught_by_own_property_check": v.get("caught_by_own_property"), "fired": {k: sorted({x.split('|')[0] for x in d["keys"]}) for k, d in v.get("checks_fired", {}).items()}}
m["detected_when"] = when
(dst / "meta.json").write_text(json.dumps(m, indent=1))
print(dst, m["checks"])
