#!/bin/bash
# confirm every delivered change under /tmp/wt_out/<PROP>/change<n>/ that has no verification.json yet (4 at a time; full suite each)
cd /verif
todo=""
for d in /tmp/wt_out/C*/change*/; do
  [ -f $d/meta.json ] && [ -f $d/patch.diff ] && [ ! -f $d/verification.json ] && todo="$todo $d"
done
echo $todo | tr ' ' '\n' | grep . | xargs -P ${PAR:-4} -I{} sh -c 'd={}; p=$(basename $(dirname $d)); n=$(basename $d | sed s/change//); /venv/bin/python tools/verify_seeded.py $d $p $p-$n > $d/verify.log 2>&1'
for d in $todo; do echo "$(basename $(dirname $d))-$(basename $d): $(tail -1 $d/verify.log | cut -c1-700)"; done
