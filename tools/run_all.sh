#!/bin/bash
# run every property at the given tier (default quick) in parallel; print the summary line of each
tier=${1:-quick}
cd /verif
for i in $(seq -w 1 20); do
  ( /venv/bin/python sa/run.py C$i --tier $tier > /tmp/runall_C$i.log 2>&1; echo "C$i exit=$? $(grep -c KNOWN-FINDING /tmp/runall_C$i.log) known; $(grep -E 'self-test|VIOLATION|ANALYSIS-ERROR' /tmp/runall_C$i.log | head -3 | cut -c1-300 | tr '\n' ' ')" ) &
done
wait
