#!/venv/bin/python
"""Run the pinned baseline suite on /repo and compare with BASELINE.json's stable_pass set."""
import json, subprocess, sys, tempfile, xml.etree.ElementTree as ET, os
b = json.load(open('/root/.vp/BASELINE.json'))
out = tempfile.mktemp(suffix='.junit.xml', dir='/tmp')
cmd = b['cmd'].replace('<file>', out)
env = dict(os.environ); env.pop('PIXEE_CODEMODDER_PYTHON_VERIF', None)
subprocess.run(cmd, shell=True, stdout=subprocess.DEVNULL, stderr=subprocess.DEVNULL, env=env)
passed = set()
for tc in ET.parse(out).getroot().iter('testcase'):
    if not any(ch.tag in ('failure', 'error', 'skipped') for ch in tc):
        passed.add(f"{tc.get('classname')}::{tc.get('name')}")
os.unlink(out)
stable = set(b['stable_pass'])
missing = sorted(stable - passed)
print(f"stable_pass={len(stable)} passed_now={len(passed)} missing={len(missing)}")
for m in missing[:40]: print("  MISSING", m)
sys.exit(1 if missing else 0)
