import hashlib, json, os, subprocess, sys, tempfile, pathlib
APP = "from flask import Flask\napp = Flask(__name__)\n"
MANIFESTS = {
 "requirements.txt": "flask>=2\r\nrequests\r\n",
 "setup.cfg": "[metadata]\r\nname = x\r\n\r\n[options]\r\ninstall_requires =\r\n    flask\r\n    requests\r\n",
 "pyproject.toml": "[project]\r\nname = \"x\"\r\nversion = \"1\"\r\ndependencies = [\r\n    \"flask\",\r\n]\r\n",
 "setup.py": "from setuptools import setup\r\nsetup(\r\n    name=\"x\",\r\n    install_requires=[\"flask\", \"requests\"],\r\n)\r\n",
}
bad = 0
for name, text in MANIFESTS.items():
    d = pathlib.Path(tempfile.mkdtemp())
    (d / "app.py").write_text(APP)
    (d / name).write_bytes(text.encode())
    env = dict(os.environ, PATH="/venv/bin:" + os.environ["PATH"])
    subprocess.run(["/venv/bin/codemodder", str(d), "--codemod-include", "pixee:python/flask-enable-csrf-protection", "--output", str(d / "o.json")], env=env, capture_output=True)
    after = (d / name).read_bytes()
    lf_only = [l for l in after.split(b"\n") if l and not l.endswith(b"\r")]
    changed = after != text.encode()
    print(f"{name}: changed={changed} lines without CR={len(lf_only)} {lf_only[:2]}")
    if not changed or lf_only:
        bad += 1
sys.exit(1 if bad else 0)
