#!/venv/bin/python
"""Regression over the stored seeded corpus: for every /verif/seeded/<P>-<n>, apply the patch in a scratch worktree and run only the check of
its own property; compare with the verdict recorded in meta.json (`checks.caught_by_own_property_check`).  16 at a time.
usage: recheck_own.py [ids...]"""
import json, os, subprocess, sys, fcntl
from concurrent.futures import ThreadPoolExecutor
from pathlib import Path

BASES = ["HEAD", "eeb141a", "51ed23f", "2c61668", "b59310b", "8fb63a3", "1e5babd", "cc14e90", "d3ce8dc"]
CODE = ("import sys, json; sys.path.insert(0,'/verif'); from sa.run import run_property; from sa.model import AnalysisError\n"
        "try:\n    code, rep = run_property('{pid}', 'quick', quiet=True, write=False)\n    kn, new = rep.split_known()\n"
        "    print('RESULT', json.dumps([code, [f.key for f in new]]))\nexcept AnalysisError as e:\n    print('RESULT', json.dumps([2, ['ANALYSIS-ERROR']]))")


def wt(*a):
    os.makedirs("/tmp/vwt", exist_ok=True)
    with open("/tmp/vwt/.wtlock", "w") as lk:
        fcntl.flock(lk, fcntl.LOCK_EX)
        return subprocess.run(["git", "-C", "/repo", "worktree", *a], capture_output=True, text=True)


def run(pid, tree):
    p = subprocess.run(["/venv/bin/python", "-c", CODE.replace("{pid}", pid)], capture_output=True, text=True, env=dict(os.environ, VERIF_REPO=str(tree)), cwd="/verif")
    line = next((l for l in p.stdout.splitlines() if l.startswith("RESULT")), None)
    return json.loads(line[7:]) if line else [3, ["CRASH"]]


def one(d: Path):
    m = json.loads((d / "meta.json").read_text())
    pid = d.name.split("-")[0]
    t = Path("/tmp/vwt") / ("ro_" + d.name)
    wt("remove", "--force", str(t))
    wt("add", "-q", "--detach", str(t), "HEAD")
    try:
        for b in BASES:
            subprocess.run(["git", "-C", str(t), "checkout", "-q", "--detach", b], capture_output=True)
            base = run(pid, t) if b != "HEAD" else None
            if subprocess.run(["git", "-C", str(t), "apply", "--whitespace=nowarn", str(d / "patch.diff")], capture_output=True).returncode == 0:
                code, keys = run(pid, t)
                basekeys = set(base[1]) if base else set()
                new = [k for k in keys if k not in basekeys]
                return d.name, bool(code != 0 and new), bool(m.get("checks", {}).get("caught_by_own_property_check")), b
        return d.name, None, None, "no base"
    finally:
        wt("remove", "--force", str(t))


ids = sys.argv[1:]
dirs = [d for d in sorted(Path("/verif/seeded").iterdir()) if d.is_dir() and (not ids or d.name in ids)]
with ThreadPoolExecutor(16) as ex:
    res = list(ex.map(one, dirs))
lost = [r for r in res if r[2] and r[1] is False]
gained = [r for r in res if r[2] is False and r[1]]
print(f"{len(res)} changes; recorded as caught by own check: {sum(1 for r in res if r[2])}; caught now: {sum(1 for r in res if r[1])}")
print("LOST (recorded as caught, silent now):", [(r[0], r[3]) for r in lost])
print("gained:", [r[0] for r in gained])
print("no base:", [r[0] for r in res if r[1] is None])
