#!/bin/bash
# re-run the /verif checks against every stored seeded change (scratch worktrees under /tmp/vwt, removed afterwards)
cd /verif
/venv/bin/python tools/seeded_baseline.py >/dev/null 2>&1
rm -rf /tmp/recheck; mkdir -p /tmp/recheck
for d in seeded/*/; do n=$(basename $d); mkdir -p /tmp/recheck/$n; cp $d/* /tmp/recheck/$n/; done
ls seeded | xargs -P 8 -I{} sh -c 'p=$(echo {} | cut -d- -f1); /venv/bin/python tools/verify_seeded.py /tmp/recheck/{} $p {} --no-suite > /tmp/recheck/{}.log 2>&1'
/venv/bin/python - <<'PY'
import json, glob
for f in sorted(glob.glob('/tmp/recheck/*/verification.json')):
    d = json.load(open(f))
    fired = {k: sorted({x.split('|')[0] for x in v['keys']}) for k, v in d.get('checks_fired', {}).items()}
    print(f"{d['name']:8} applies={d.get('applies')} demo(with/without)={d.get('demo_with_patch_rc')}/{d.get('demo_without_patch_rc')} own={d.get('caught_by_own_property')} fired={fired}")
PY
