#!/venv/bin/python
"""What the checks report on an unpatched checkout of /repo HEAD (to subtract when judging seeded changes)."""
import json, os, subprocess, sys
from pathlib import Path


def _git_wt(*args, check=False):
    """git worktree add/remove under a machine-wide file lock (git's worktree bookkeeping is not safe against concurrent add/remove)"""
    import fcntl
    os.makedirs("/tmp/vwt", exist_ok=True)
    with open("/tmp/vwt/.wtlock", "w") as lk:
        fcntl.flock(lk, fcntl.LOCK_EX)
        return subprocess.run(["git", "-C", "/repo", "worktree", *args], capture_output=True, text=True, check=check)

rev = sys.argv[1] if len(sys.argv) > 1 else "HEAD"
head = subprocess.run(["git", "-C", "/repo", "rev-parse", rev], capture_output=True, text=True).stdout.strip()
wt = Path("/tmp/vwt/baseline_" + head[:10]); wt.parent.mkdir(exist_ok=True)
_git_wt("remove", "--force", str(wt))
_git_wt("add", "-q", "--detach", str(wt), head, check=True)
out = {}
try:
    for pid in [f"C{i:02d}" for i in range(1, 21)]:
        p = subprocess.run(["/venv/bin/python", "-c", f"import sys; sys.path.insert(0,'/verif'); from sa.run import run_property\ncode, rep = run_property('{pid}', 'quick', quiet=True, write=False)\nkn, new = rep.split_known()\nimport json; print('RESULT', json.dumps([f.key for f in new]))"],
                           capture_output=True, text=True, env=dict(os.environ, VERIF_REPO=str(wt)), cwd="/verif")
        line = next((l for l in p.stdout.splitlines() if l.startswith("RESULT")), None)
        out[pid] = json.loads(line[7:]) if line else ["CRASH " + p.stderr[-200:]]
finally:
    _git_wt("remove", "--force", str(wt))
Path(f"/tmp/vwt_baseline_{head[:10]}.json").write_text(json.dumps(out, indent=1))
print({k: len(v) for k, v in out.items() if v})
