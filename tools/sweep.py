#!/venv/bin/python
"""Development aid: perturb the code at every location a property's rules judged and list the perturbations they do not notice
(sa/sweep.py).  usage: tools/sweep.py <PROP>.  Survivors are mostly changes the property does not constrain; reading the list is how
blind spots are found (e.g. C04 flag-stored)."""
import sys, json
sys.path.insert(0,'/verif')
from sa.run import run_property
from sa.sweep import sweep
pid=sys.argv[1]
code, rep = run_property(pid,'quick',quiet=True,write=False)
base={f.key for f in rep.findings}
res=sweep(pid, rep.instances, base)
print(json.dumps(res, indent=1))
